package main

import (
	"math/rand"
	"sync"

	"github.com/google/badwolf/storage"
	"github.com/google/badwolf/storage/memory"
	"github.com/google/badwolf/triple"
)

type stressStats struct {
	ops             int
	byOp            map[string]int
	errors          map[string]int
	panics          int
	panicKinds      map[string]int
	notClosed       int
	errorNotClosed  int
	valueAfterClose int
	optionsModified int
	latestOnShared  int
	sharedLookups   int
}

func newStressStats() *stressStats {
	return &stressStats{byOp: map[string]int{}, errors: map[string]int{}, panicKinds: map[string]int{}}
}

func (s *stressStats) merge(o *stressStats) {
	s.ops += o.ops
	for k, v := range o.byOp {
		s.byOp[k] += v
	}
	for k, v := range o.errors {
		s.errors[k] += v
	}
	for k, v := range o.panicKinds {
		s.panicKinds[k] += v
	}
	s.panics += o.panics
	s.notClosed += o.notClosed
	s.errorNotClosed += o.errorNotClosed
	s.valueAfterClose += o.valueAfterClose
	s.optionsModified += o.optionsModified
	s.latestOnShared += o.latestOnShared
	s.sharedLookups += o.sharedLookups
}

func (s *stressStats) noteErr(err error) {
	if err != nil {
		s.errors[errEnum(err)]++
	}
}

// noteChannel accounts for the channel discipline of one lookup-like call.
func (s *stressStats) noteChannel(r *lookupResult) {
	if r.panicked {
		s.panics++
		s.panicKinds[r.panicKind]++
	}
	if r.notClosed {
		if r.err != nil {
			s.errorNotClosed++
		} else {
			s.notClosed++
		}
	}
	if r.extra {
		s.valueAfterClose++
	}
}

type sharedLO struct {
	lo     *storage.LookupOptions
	snap   loSnapshot
	latest bool
}

func stressWorker(id int, rng *rand.Rand, st storage.Store, n int, shared []*sharedLO, stats *stressStats) {
	g := &gen{rng: rng, names: 3, errPct: 12}
	g.pickHot(16)
	var cur storage.Graph
	if h, err := st.Graph(ctx, graphNames[id%3]); err == nil {
		cur = h
	}
	for i := 0; i < n; i++ {
		kick()
		var po planOp
		r := rng.Intn(100)
		switch {
		case r < 2:
			po = planOp{Op: opNewGraph, Name: rng.Intn(3)}
		case r < 8:
			po = planOp{Op: opGraph, Name: rng.Intn(3)}
		case r < 10:
			po = planOp{Op: opDeleteGraph, Name: rng.Intn(3)}
		case r < 13:
			po = planOp{Op: opGraphNames}
		default:
			po = g.graphOp()
			if cur == nil {
				po = planOp{Op: opGraph, Name: rng.Intn(3)}
			}
		}
		if i&7 == 0 {
			spinWait(po.Spin)
		}
		stats.ops++
		stats.byOp[po.Op]++
		switch po.Op {
		case opNewGraph:
			h, err := st.NewGraph(ctx, graphNames[po.Name])
			stats.noteErr(err)
			if err == nil {
				cur = h
			}
		case opGraph:
			h, err := st.Graph(ctx, graphNames[po.Name])
			stats.noteErr(err)
			if err == nil {
				cur = h
			}
		case opDeleteGraph:
			stats.noteErr(st.DeleteGraph(ctx, graphNames[po.Name]))
		case opGraphNames:
			mode := chUnbuffered
			if rng.Intn(2) == 0 {
				mode = chBuffered
			}
			res := callGraphNames(st, mode)
			stats.noteErr(res.err)
			stats.noteChannel(&res)
		case opAddTriples:
			stats.noteErr(cur.AddTriples(ctx, tripleSlice(po.Ts)))
		case opRemoveTriples:
			stats.noteErr(cur.RemoveTriples(ctx, tripleSlice(po.Ts)))
		case opExist:
			_, err := cur.Exist(ctx, trips[po.Ts[0]].t)
			stats.noteErr(err)
		default:
			mode := chUnbuffered
			if rng.Intn(2) == 0 {
				mode = chBuffered
			}
			if rng.Intn(2) == 0 {
				sh := shared[rng.Intn(len(shared))]
				stats.sharedLookups++
				res := callLookup(cur, po.Kind, po.S, po.P, po.O, sh.lo, mode)
				stats.noteErr(res.err)
				stats.noteChannel(&res)
				if sh.latest && errEnum(res.err) == "latest_and_filter" {
					stats.latestOnShared++
				}
			} else {
				lo := buildLO(po.LO)
				snap := snapshotLO(lo)
				res := callLookup(cur, po.Kind, po.S, po.P, po.O, lo, mode)
				stats.noteErr(res.err)
				stats.noteChannel(&res)
				if !snap.sameAs(lo) {
					stats.optionsModified++
				}
			}
		}
	}
}

// nilChannelProbe calls every lookup kind (and GraphNames) with a nil channel.
func nilChannelProbe(st storage.Store, g storage.Graph) (bool, map[string]string) {
	ok := true
	detail := map[string]string{}
	note := func(name string, r lookupResult) {
		e := errEnum(r.err)
		if r.panicked {
			e = "panic_" + r.panicKind
		}
		if e != "nil_channel" {
			ok = false
			detail[name] = e
		}
	}
	lo := buildLO(defaultLO())
	for k := range kinds {
		s, p, o := -1, -1, -1
		if kinds[k].hasS {
			s = 0
		}
		if kinds[k].hasP {
			p = 0
		}
		if kinds[k].hasO {
			o = 0
		}
		note(kinds[k].name, callLookup(g, k, s, p, o, lo, chNil))
	}
	note(opGraphNames, callGraphNames(st, chNil))
	return ok, detail
}

// latestPair returns two temporal triples sharing subject, predicate id and
// the maximal anchor for that id.
func latestPair() []int {
	var out []int
	for i := range trips {
		if trips[i].s == 0 && trips[i].p == 3 { // "p"@[2017-01-01T00:00:00Z]
			out = append(out, i)
		}
	}
	if len(out) < 2 {
		die("vocabulary lacks two triples with the same latest anchor")
	}
	return out[:2]
}

// inFlightProbe observes, without a data race, whether a lookup has written to
// the caller's private LookupOptions while it is blocked on its second send.
func inFlightProbe() (modified bool, results int) {
	st := memory.NewStore()
	g, err := st.NewGraph(ctx, "probe")
	if err != nil {
		die("probe: %v", err)
	}
	if err := g.AddTriples(ctx, tripleSlice(latestPair())); err != nil {
		die("probe: %v", err)
	}
	lo := &storage.LookupOptions{LatestAnchor: true}
	ch := make(chan *triple.Triple)
	done := make(chan error, 1)
	go func() { done <- g.Triples(ctx, lo, ch) }()
	if _, ok := <-ch; ok {
		results++
		// The producer is now blocked on its second send (two results exist),
		// which is ordered after anything it wrote before the first send.
		modified = lo.FilterOptions != nil
	}
	for range ch {
		results++
	}
	<-done
	return
}

func modeStress(seed int64, n, threads int, sharedLatest bool) {
	if n <= 0 {
		n = 2000
	}
	if threads <= 0 {
		threads = 4
	}
	rng := rand.New(rand.NewSource(seed))
	st := memory.NewStore()
	var g0 storage.Graph
	for i, name := range graphNames {
		g, err := st.NewGraph(ctx, name)
		if err != nil {
			die("stress setup: %v", err)
		}
		if i == 0 {
			g0 = g
		}
	}
	mk := func(lo *storage.LookupOptions, latest bool) *sharedLO {
		return &sharedLO{lo: lo, snap: snapshotLO(lo), latest: latest}
	}
	shared := []*sharedLO{
		mk(&storage.LookupOptions{}, false),
		mk(&storage.LookupOptions{MaxElements: 2}, false),
	}
	if sharedLatest {
		shared = append(shared, mk(&storage.LookupOptions{LatestAnchor: true}, true))
	}
	nilOK, nilDetail := nilChannelProbe(st, g0)

	rngs := make([]*rand.Rand, threads)
	for i := range rngs {
		rngs[i] = rand.New(rand.NewSource(rng.Int63()))
	}
	stats := make([]*stressStats, threads)
	var ready, fin sync.WaitGroup
	start := make(chan struct{})
	ready.Add(threads)
	fin.Add(threads)
	for t := 0; t < threads; t++ {
		stats[t] = newStressStats()
		go func(t int) {
			defer fin.Done()
			ready.Done()
			<-start
			stressWorker(t, rngs[t], st, n, shared, stats[t])
		}(t)
	}
	ready.Wait()
	close(start)
	fin.Wait()

	total := newStressStats()
	for _, s := range stats {
		total.merge(s)
	}
	for _, sh := range shared {
		if !sh.snap.sameAs(sh.lo) {
			total.optionsModified++
		}
	}
	inFlight, probeResults := inFlightProbe()
	line := map[string]interface{}{
		"mode": "stress", "result": "done", "seed": seed, "threads": threads,
		"shared_latest": sharedLatest,
		"ops":           total.ops, "by_op": total.byOp, "errors": total.errors,
		"panics": total.panics, "panic_kinds": total.panicKinds,
		"not_closed": total.notClosed, "error_not_closed": total.errorNotClosed,
		"value_after_close": total.valueAfterClose,
		"options_modified":  total.optionsModified,
		"options_modified_in_flight": func() int {
			if inFlight {
				return 1
			}
			return 0
		}(),
		"in_flight_probe_results":     probeResults,
		"shared_lookups":              total.sharedLookups,
		"latest_and_filter_on_shared": total.latestOnShared,
		"nil_channel_ok":              nilOK,
	}
	if !nilOK {
		line["nil_channel_detail"] = nilDetail
	}
	emit(line)
}
