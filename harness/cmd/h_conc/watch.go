package main

import (
	"os"
	"regexp"
	"runtime"
	"strings"
	"sync/atomic"
	"time"
)

// Watchdog, robust against machine load.
//
// Progress is signalled by kick(). A hang verdict is given in two ways:
//
//  1. confirmed deadlock: no kick for quietBeforeDump, and in confirmDumps
//     consecutive goroutine dumps (one second apart, no kick in between) every
//     goroutine other than the watchdog is blocked on a channel / lock / wait
//     group / select, none is running, runnable, sleeping or in a syscall, and
//     the set of goroutines and their states is the same in all dumps. Such a
//     process cannot make progress however long one waits, so the verdict does
//     not depend on the speed of the machine.
//  2. hard limit: no kick for -timeout seconds although something is still
//     runnable (reported with deadlock_confirmed=false; the limit is long).
var lastKick atomic.Int64

func kick() { lastKick.Store(time.Now().UnixNano()) }

const (
	quietBeforeDump = 8 * time.Second
	confirmDumps    = 4
)

var goroutineHeader = regexp.MustCompile(`(?m)^goroutine (\d+) \[([^\]]*)\]:`)

// blockedStates are wait reasons that only another goroutine can end.
func stateBlocked(st string) bool {
	if i := strings.Index(st, ","); i >= 0 { // "chan receive, 2 minutes"
		st = st[:i]
	}
	switch st {
	case "chan receive", "chan send", "select", "select (no cases)", "chan receive (nil chan)", "chan send (nil chan)",
		"semacquire", "sync.Mutex.Lock", "sync.RWMutex.RLock", "sync.RWMutex.Lock", "sync.WaitGroup.Wait", "sync.Cond.Wait":
		return true
	}
	return false
}

// snapshot returns (all other goroutines blocked, signature of ids+states, dump).
func snapshot() (bool, string, string) {
	buf := make([]byte, 4<<20)
	n := runtime.Stack(buf, true)
	dump := string(buf[:n])
	all := true
	var sig strings.Builder
	for i, m := range goroutineHeader.FindAllStringSubmatch(dump, -1) {
		if i == 0 {
			continue // the first goroutine of the dump is the caller (the watchdog)
		}
		st := m[2]
		if j := strings.Index(st, ","); j >= 0 {
			st = st[:j]
		}
		sig.WriteString(m[1] + ":" + st + ";")
		if !stateBlocked(st) {
			all = false
		}
	}
	return all, sig.String(), dump
}

func startWatchdog(mode string, seconds int) {
	if seconds <= 0 {
		return
	}
	kick()
	limit := time.Duration(seconds) * time.Second
	report := func(confirmed bool, dump string, why string) {
		if len(dump) > 6000 {
			dump = dump[:6000]
		}
		emit(map[string]interface{}{"mode": mode, "result": "hang", "deadlock_confirmed": confirmed, "why": why,
			"gomaxprocs": runtime.GOMAXPROCS(0), "goroutines": dump})
		os.Exit(3)
	}
	go func() {
		streak, lastSig, streakKick := 0, "", int64(0)
		for {
			time.Sleep(time.Second)
			k := lastKick.Load()
			quiet := time.Since(time.Unix(0, k))
			if quiet < quietBeforeDump {
				streak = 0
				continue
			}
			blocked, sig, dump := snapshot()
			if blocked && sig != "" && (streak == 0 || (sig == lastSig && k == streakKick)) {
				streak++
				lastSig, streakKick = sig, k
				if streak >= confirmDumps {
					report(true, dump, "every goroutine is blocked on a channel, lock or wait group in consecutive dumps and nothing is runnable")
				}
			} else {
				streak = 0
			}
			if quiet > limit {
				report(false, dump, "no progress for the hard limit although some goroutine is not blocked")
			}
		}
	}()
}
