package main

import (
	"fmt"
	"sort"

	"github.com/anishathalye/porcupine"
)

// ---------------------------------------------------------------------------
// Operation vocabulary shared by all modes.

const (
	opNewGraph      = "NewGraph"
	opGraph         = "Graph"
	opDeleteGraph   = "DeleteGraph"
	opGraphNames    = "GraphNames"
	opAddTriples    = "AddTriples"
	opRemoveTriples = "RemoveTriples" // one triple per model step
	opExist         = "Exist"
)

const (
	projTriple = iota
	projObject
	projSubject
	projPredicate
)

type kindInfo struct {
	name             string
	hasS, hasP, hasO bool
	proj             int
}

// Index 0 is Triples, 1..10 are the ten indexed lookups.
var kinds = []kindInfo{
	{"Triples", false, false, false, projTriple},
	{"Objects", true, true, false, projObject},
	{"Subjects", false, true, true, projSubject},
	{"PredicatesForSubject", true, false, false, projPredicate},
	{"PredicatesForObject", false, false, true, projPredicate},
	{"PredicatesForSubjectAndObject", true, false, true, projPredicate},
	{"TriplesForSubject", true, false, false, projTriple},
	{"TriplesForPredicate", false, true, false, projTriple},
	{"TriplesForObject", false, false, true, projTriple},
	{"TriplesForSubjectAndPredicate", true, true, false, projTriple},
	{"TriplesForPredicateAndObject", false, true, true, projTriple},
}

var kindByName = func() map[string]int {
	m := map[string]int{}
	for i, k := range kinds {
		m[k.name] = i
	}
	return m
}()

// Filter codes; numerically equal to the constants of bql/planner/filter.
const (
	fopNone        = 0
	fopLatest      = 1
	fopIsImmutable = 2
	fopIsTemporal  = 3
	fopBad         = 99

	ffSubject   = 1
	ffPredicate = 2
	ffObject    = 3
	ffGarbage   = 99
)

var fopStr = map[int]string{fopLatest: "latest", fopIsImmutable: "isImmutable", fopIsTemporal: "isTemporal", fopBad: "badop"}
var ffStr = map[int]string{ffSubject: "subject", ffPredicate: "predicate", ffObject: "object", ffGarbage: "garbage"}

func revMap(m map[int]string) map[string]int {
	r := map[string]int{}
	for k, v := range m {
		r[v] = k
	}
	return r
}

var fopByStr = revMap(fopStr)
var ffByStr = revMap(ffStr)

// loDesc describes a storage.LookupOptions value. Fop != 0 means FilterOptions
// is non-nil.
type loDesc struct {
	Max, Off     int
	Lower, Upper int // time rank, -1 when unset
	Latest       bool
	Fop, Ffield  int
}

func defaultLO() loDesc { return loDesc{Lower: -1, Upper: -1} }

type opIn struct {
	Op      string
	Kind    int   // lookup kind, -1 for non lookups
	Name    int   // graph name index (store operations)
	H       int   // object id (graph operations)
	Ts      []int // triples (AddTriples: batch; RemoveTriples/Exist: one)
	S, P, O int   // query components, -1 when not used
	LO      loDesc
}

type opOut struct {
	Err string
	ID  int      // NewGraph / Graph
	Ok  bool     // Exist
	Res []string // lookups: emitted order; GraphNames: sorted
}

// ---------------------------------------------------------------------------
// Sequential reference model.

const maxObj = 64

// mstate is comparable on purpose: porcupine's default equality (==) works.
type mstate struct {
	names [3]int8 // object id bound to g0..g2, -1 when absent
	has   uint64  // object ids that exist
	sets  [maxObj]uint64
}

func initState() mstate {
	return mstate{names: [3]int8{-1, -1, -1}}
}

// predKindStrict selects which of the two observed store behaviours the
// reference mirrors for lookups that take a predicate. false: the store buckets
// by predicate id only, so an immutable query predicate also returns temporal
// triples with the same id and a temporal one also returns immutable triples
// (original tree). true: the stored predicate must also have the kind of the
// query predicate (tree after the "lookups ignore the kind of the given
// predicate" fix). It is probed from the real store at start-up (-predkind auto).
var predKindStrict bool

// refLookup is the reference result of a lookup on a set of triples. It is a
// plain scan; it does not share anything with memory.go.
func refLookup(set uint64, kind int, s, p, o int, lo loDesc) (string, []string) {
	ki := kinds[kind]
	fop, ff := lo.Fop, lo.Ffield
	if lo.Latest {
		if fop != fopNone {
			return "latest_and_filter", nil
		}
		fop, ff = fopLatest, ffPredicate
	}
	if fop != fopNone {
		if fop != fopLatest && fop != fopIsImmutable && fop != fopIsTemporal {
			return "bad_filter", nil
		}
		if ff != ffPredicate && ff != ffObject {
			return "bad_filter", nil
		}
	}
	var sel []int
	for i := range trips {
		if set&(1<<uint(i)) == 0 {
			continue
		}
		t := &trips[i]
		if ki.hasS && t.s != s {
			continue
		}
		if ki.hasP && preds[t.p].id != preds[p].id {
			continue
		}
		if ki.hasO && t.o != o {
			continue
		}
		tp := &preds[t.p]
		if ki.hasP && predKindStrict && preds[p].temporal != tp.temporal {
			continue
		}
		if tp.temporal {
			if ki.hasP && preds[p].temporal && preds[p].rank != tp.rank {
				continue
			}
			if lo.Lower >= 0 && tp.rank < lo.Lower {
				continue
			}
			if lo.Upper >= 0 && tp.rank > lo.Upper {
				continue
			}
		}
		sel = append(sel, i)
	}
	if fop != fopNone {
		var kept []int
		fieldPred := func(i int) *predMeta {
			t := &trips[i]
			if ff == ffPredicate {
				return &preds[t.p]
			}
			if objs[t.o].isPred {
				return &preds[objs[t.o].pred]
			}
			return nil
		}
		for _, i := range sel {
			if ki.hasP && preds[p].str != preds[trips[i].p].str {
				continue
			}
			if fieldPred(i) == nil {
				continue
			}
			kept = append(kept, i)
		}
		sel = sel[:0]
		switch fop {
		case fopIsImmutable:
			for _, i := range kept {
				if !fieldPred(i).temporal {
					sel = append(sel, i)
				}
			}
		case fopIsTemporal:
			for _, i := range kept {
				if fieldPred(i).temporal {
					sel = append(sel, i)
				}
			}
		case fopLatest:
			best := map[string]int{}
			for _, i := range kept {
				fp := fieldPred(i)
				if !fp.temporal {
					continue
				}
				if b, ok := best[fp.id]; !ok || fp.rank > b {
					best[fp.id] = fp.rank
				}
			}
			for _, i := range kept {
				fp := fieldPred(i)
				if fp.temporal && best[fp.id] == fp.rank {
					sel = append(sel, i)
				}
			}
		}
	}
	sort.Slice(sel, func(a, b int) bool { return trips[sel[a]].str < trips[sel[b]].str })
	skip := lo.Max * lo.Off
	if skip > 0 {
		if skip >= len(sel) {
			sel = nil
		} else {
			sel = sel[skip:]
		}
	}
	if lo.Max > 0 && len(sel) > lo.Max {
		sel = sel[:lo.Max]
	}
	res := make([]string, 0, len(sel))
	for _, i := range sel {
		t := &trips[i]
		switch ki.proj {
		case projTriple:
			res = append(res, t.str)
		case projObject:
			res = append(res, objs[t.o].str)
		case projSubject:
			res = append(res, subjStr[t.s])
		case projPredicate:
			res = append(res, preds[t.p].str)
		}
	}
	return "", res
}

func sameStrings(a, b []string) bool {
	if len(a) != len(b) {
		return false
	}
	for i := range a {
		if a[i] != b[i] {
			return false
		}
	}
	return true
}

// stepFull is the sequential specification. It returns whether (in, out) is a
// legal step from st, the successor state, and the output the model expects
// (for NewGraph/Graph the expected id is the observed one when it is
// admissible).
func stepFull(st mstate, in *opIn, out *opOut) (bool, mstate, opOut) {
	switch in.Op {
	case opNewGraph:
		if st.names[in.Name] >= 0 {
			return out.Err == "exists", st, opOut{Err: "exists"}
		}
		want := opOut{Err: "", ID: out.ID}
		if out.Err != "" || out.ID < 0 || out.ID >= maxObj || st.has&(1<<uint(out.ID)) != 0 {
			return false, st, want
		}
		st.names[in.Name] = int8(out.ID)
		st.has |= 1 << uint(out.ID)
		st.sets[out.ID] = 0
		return true, st, want
	case opGraph:
		if st.names[in.Name] < 0 {
			return out.Err == "missing", st, opOut{Err: "missing"}
		}
		want := opOut{ID: int(st.names[in.Name])}
		return out.Err == "" && out.ID == want.ID, st, want
	case opDeleteGraph:
		if st.names[in.Name] < 0 {
			return out.Err == "missing", st, opOut{Err: "missing"}
		}
		st.names[in.Name] = -1
		return out.Err == "", st, opOut{}
	case opGraphNames:
		want := opOut{Res: []string{}}
		for i, id := range st.names {
			if id >= 0 {
				want.Res = append(want.Res, graphNames[i])
			}
		}
		return out.Err == "" && sameStrings(out.Res, want.Res), st, want
	}
	// Graph-level operations act on an object id.
	if in.H < 0 || in.H >= maxObj || st.has&(1<<uint(in.H)) == 0 {
		return false, st, opOut{Err: "no_such_object"}
	}
	switch in.Op {
	case opAddTriples:
		for _, t := range in.Ts {
			st.sets[in.H] |= 1 << uint(t)
		}
		return out.Err == "", st, opOut{}
	case opRemoveTriples:
		for _, t := range in.Ts {
			st.sets[in.H] &^= 1 << uint(t)
		}
		return out.Err == "", st, opOut{}
	case opExist:
		want := opOut{Ok: st.sets[in.H]&(1<<uint(in.Ts[0])) != 0}
		return out.Err == "" && out.Ok == want.Ok, st, want
	}
	if in.Kind < 0 {
		return false, st, opOut{Err: "unknown_op"}
	}
	e, res := refLookup(st.sets[in.H], in.Kind, in.S, in.P, in.O, in.LO)
	want := opOut{Err: e, Res: res}
	return out.Err == e && sameStrings(out.Res, res), st, want
}

func hashState(s interface{}) uint64 {
	st := s.(mstate)
	h := uint64(1469598103934665603)
	mix := func(v uint64) {
		h ^= v
		h *= 1099511628211
	}
	for _, n := range st.names {
		mix(uint64(uint8(n)))
	}
	mix(st.has)
	for i := 0; i < maxObj; i++ {
		if st.has&(1<<uint(i)) != 0 {
			mix(st.sets[i] + uint64(i)<<56)
		}
	}
	return h
}

func normState(st mstate) mstate {
	// sets of non-existing ids are always zero by construction; nothing to do,
	// kept as a hook should the representation change.
	return st
}

var storeModel = porcupine.Model{
	Init: func() interface{} { return initState() },
	Step: func(state, input, output interface{}) (bool, interface{}) {
		ok, ns, _ := stepFull(state.(mstate), input.(*opIn), output.(*opOut))
		return ok, normState(ns)
	},
	Hash: hashState,
	DescribeOperation: func(input, output interface{}) string {
		return fmt.Sprintf("%v -> %v", inToJSON(input.(*opIn)), outToJSON(input.(*opIn), output.(*opOut)))
	},
}

// ---------------------------------------------------------------------------
// History entries (one per porcupine operation) and their JSON form.

type entry struct {
	G         int
	Call, Ret int64
	In        opIn
	Out       opOut
	Inv       int // invocation number (RemoveTriples parts share one)
}

type jsonLO struct {
	Max    int    `json:"max,omitempty"`
	Off    int    `json:"off,omitempty"`
	Lower  string `json:"lower,omitempty"`
	Upper  string `json:"upper,omitempty"`
	Latest bool   `json:"latest,omitempty"`
	Fop    string `json:"fop,omitempty"`
	Ffield string `json:"ffield,omitempty"`
}

type jsonIn struct {
	Name    *string  `json:"name,omitempty"`
	H       *int     `json:"h,omitempty"`
	Triples []string `json:"triples,omitempty"`
	Triple  string   `json:"triple,omitempty"`
	S       string   `json:"s,omitempty"`
	P       string   `json:"p,omitempty"`
	O       string   `json:"o,omitempty"`
	LO      *jsonLO  `json:"lo,omitempty"`
}

type jsonOut struct {
	Err   string    `json:"err"`
	ID    *int      `json:"id,omitempty"`
	Ok    *bool     `json:"ok,omitempty"`
	Res   *[]string `json:"res,omitempty"`
	Names *[]string `json:"names,omitempty"`
}

type histEntry struct {
	G    int     `json:"g"`
	Call int64   `json:"call"`
	Ret  int64   `json:"ret"`
	Op   string  `json:"op"`
	In   jsonIn  `json:"in"`
	Out  jsonOut `json:"out"`
}

func loToJSON(lo loDesc) *jsonLO {
	j := &jsonLO{Max: lo.Max, Off: lo.Off, Latest: lo.Latest}
	if lo.Lower >= 0 {
		j.Lower = timeRankStr[lo.Lower]
	}
	if lo.Upper >= 0 {
		j.Upper = timeRankStr[lo.Upper]
	}
	if lo.Fop != fopNone {
		j.Fop = fopStr[lo.Fop]
		j.Ffield = ffStr[lo.Ffield]
	}
	return j
}

func inToJSON(in *opIn) jsonIn {
	var j jsonIn
	switch in.Op {
	case opNewGraph, opGraph, opDeleteGraph:
		n := graphNames[in.Name]
		j.Name = &n
		return j
	case opGraphNames:
		return j
	}
	h := in.H
	j.H = &h
	switch in.Op {
	case opAddTriples:
		for _, t := range in.Ts {
			j.Triples = append(j.Triples, trips[t].str)
		}
		return j
	case opRemoveTriples, opExist:
		j.Triple = trips[in.Ts[0]].str
		return j
	}
	ki := kinds[in.Kind]
	if ki.hasS {
		j.S = subjStr[in.S]
	}
	if ki.hasP {
		j.P = preds[in.P].str
	}
	if ki.hasO {
		j.O = objs[in.O].str
	}
	j.LO = loToJSON(in.LO)
	return j
}

func outToJSON(in *opIn, out *opOut) jsonOut {
	j := jsonOut{Err: out.Err}
	switch in.Op {
	case opNewGraph, opGraph:
		if out.Err == "" {
			id := out.ID
			j.ID = &id
		}
	case opDeleteGraph, opAddTriples, opRemoveTriples:
	case opGraphNames:
		r := append([]string{}, out.Res...)
		j.Names = &r
	case opExist:
		ok := out.Ok
		j.Ok = &ok
	default:
		r := append([]string{}, out.Res...)
		j.Res = &r
	}
	return j
}

func entryToJSON(e *entry) histEntry {
	return histEntry{G: e.G, Call: e.Call, Ret: e.Ret, Op: e.In.Op, In: inToJSON(&e.In), Out: outToJSON(&e.In, &e.Out)}
}

func lookupIdx(m map[string]int, what, s string) (int, error) {
	i, ok := m[s]
	if !ok {
		return -1, fmt.Errorf("unknown %s %q", what, s)
	}
	return i, nil
}

func entryFromJSON(h *histEntry) (entry, error) {
	e := entry{G: h.G, Call: h.Call, Ret: h.Ret}
	in := opIn{Op: h.Op, Kind: -1, S: -1, P: -1, O: -1, LO: defaultLO()}
	out := opOut{Err: h.Out.Err}
	var err error
	switch h.Op {
	case opNewGraph, opGraph, opDeleteGraph:
		if h.In.Name == nil {
			return e, fmt.Errorf("%s without name", h.Op)
		}
		if in.Name, err = lookupIdx(nameIdx, "graph name", *h.In.Name); err != nil {
			return e, err
		}
		if h.Out.ID != nil {
			out.ID = *h.Out.ID
		} else {
			out.ID = -1
		}
	case opGraphNames:
		if h.Out.Names != nil {
			out.Res = append([]string{}, (*h.Out.Names)...)
			sort.Strings(out.Res)
		}
	default:
		if h.In.H == nil {
			return e, fmt.Errorf("%s without object id", h.Op)
		}
		in.H = *h.In.H
		switch h.Op {
		case opAddTriples:
			for _, s := range h.In.Triples {
				i, err := lookupIdx(tripIdx, "triple", s)
				if err != nil {
					return e, err
				}
				in.Ts = append(in.Ts, i)
			}
		case opRemoveTriples, opExist:
			i, err := lookupIdx(tripIdx, "triple", h.In.Triple)
			if err != nil {
				return e, err
			}
			in.Ts = []int{i}
			if h.Out.Ok != nil {
				out.Ok = *h.Out.Ok
			}
		default:
			k, ok := kindByName[h.Op]
			if !ok {
				return e, fmt.Errorf("unknown op %q", h.Op)
			}
			in.Kind = k
			ki := kinds[k]
			if ki.hasS {
				if in.S, err = lookupIdx(subjIdx, "subject", h.In.S); err != nil {
					return e, err
				}
			}
			if ki.hasP {
				if in.P, err = lookupIdx(predIdx, "predicate", h.In.P); err != nil {
					return e, err
				}
			}
			if ki.hasO {
				if in.O, err = lookupIdx(objIdx, "object", h.In.O); err != nil {
					return e, err
				}
			}
			if j := h.In.LO; j != nil {
				in.LO.Max, in.LO.Off, in.LO.Latest = j.Max, j.Off, j.Latest
				if j.Lower != "" {
					if in.LO.Lower, err = lookupIdx(timeIdx, "time", j.Lower); err != nil {
						return e, err
					}
				}
				if j.Upper != "" {
					if in.LO.Upper, err = lookupIdx(timeIdx, "time", j.Upper); err != nil {
						return e, err
					}
				}
				if j.Fop != "" {
					if in.LO.Fop, err = lookupIdx(fopByStr, "filter operation", j.Fop); err != nil {
						return e, err
					}
					if in.LO.Ffield, err = lookupIdx(ffByStr, "filter field", j.Ffield); err != nil {
						return e, err
					}
				}
			}
			if h.Out.Res != nil {
				out.Res = append([]string{}, (*h.Out.Res)...)
			}
		}
	}
	e.In, e.Out = in, out
	return e, nil
}

// ---------------------------------------------------------------------------
// Checking.

func toPorcupine(es []entry) []porcupine.Operation {
	ops := make([]porcupine.Operation, len(es))
	for i := range es {
		ops[i] = porcupine.Operation{
			ClientId: es[i].G + 1,
			Input:    &es[i].In,
			Call:     es[i].Call,
			Output:   &es[i].Out,
			Return:   es[i].Ret,
		}
	}
	return ops
}

func resultName(r porcupine.CheckResult) string {
	switch r {
	case porcupine.Ok:
		return "ok"
	case porcupine.Illegal:
		return "illegal"
	}
	return "unknown"
}

// bruteCheck enumerates every permutation of the history that respects the
// real-time order (a before b whenever a.Ret < b.Call) and asks the model
// whether one of them is a legal sequential execution. No memoisation.
func bruteCheck(es []entry) bool {
	n := len(es)
	done := make([]bool, n)
	var rec func(st mstate, left int) bool
	rec = func(st mstate, left int) bool {
		if left == 0 {
			return true
		}
		for i := 0; i < n; i++ {
			if done[i] {
				continue
			}
			minimal := true
			for j := 0; j < n; j++ {
				if j != i && !done[j] && es[j].Ret < es[i].Call {
					minimal = false
					break
				}
			}
			if !minimal {
				continue
			}
			ok, ns, _ := stepFull(st, &es[i].In, &es[i].Out)
			if !ok {
				continue
			}
			done[i] = true
			if rec(ns, left-1) {
				return true
			}
			done[i] = false
		}
		return false
	}
	return rec(initState(), n)
}
