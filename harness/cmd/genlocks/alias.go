package main

import (
	"go/ast"
	"go/token"
	"strconv"
)

// May-write analysis for a pointer handed to a callee.  Everything is conservative: whenever the fate of the
// pointer cannot be followed syntactically the answer is "may write".

// calleeWrites: may the callee of call write through its argument number idx?
func (fi *fileInfo) calleeWrites(call *ast.CallExpr, idx int, seen map[string]bool) bool {
	var decls []*ast.FuncDecl
	switch f := call.Fun.(type) {
	case *ast.Ident:
		d := fi.funcs[f.Name]
		if d == nil {
			switch f.Name {
			case "len", "cap", "print", "println", "panic":
				return false
			}
			return true // append (stores the pointer), conversions, function values, functions of other files
		}
		decls = []*ast.FuncDecl{d}
	case *ast.SelectorExpr:
		if id, ok := f.X.(*ast.Ident); ok && fi.imports[id.Name] {
			return true // function of another package: cannot be inspected
		}
		decls = fi.methodsByName[f.Sel.Name]
		if len(decls) == 0 {
			return true
		}
	default:
		return true
	}
	for _, d := range decls {
		if fi.paramWritten(d, idx, seen) {
			return true
		}
	}
	return false
}

func paramName(fn *ast.FuncDecl, idx int) (string, bool) {
	var names []string
	for _, fld := range fn.Type.Params.List {
		if len(fld.Names) == 0 {
			names = append(names, "_")
		}
		for _, n := range fld.Names {
			names = append(names, n.Name)
		}
	}
	if len(names) == 0 {
		return "", false
	}
	if idx >= len(names) {
		idx = len(names) - 1 // variadic tail
	}
	return names[idx], true
}

func (fi *fileInfo) paramWritten(fn *ast.FuncDecl, idx int, seen map[string]bool) bool {
	key := "param:" + recvTypeName(fn) + "." + fn.Name.Name + "#" + strconv.Itoa(idx)
	if seen[key] {
		return false // already being examined further up
	}
	seen[key] = true
	name, ok := paramName(fn, idx)
	if !ok || fn.Body == nil {
		return true
	}
	if name == "_" {
		return false
	}
	written := false
	fi.walk(fn.Body, func(stack []ast.Node) {
		id, ok := stack[len(stack)-1].(*ast.Ident)
		if !ok || id.Name != name || len(stack) < 2 {
			return
		}
		switch p := stack[len(stack)-2].(type) {
		case *ast.SelectorExpr:
			if p.Sel == id {
				return
			}
		case *ast.KeyValueExpr:
			if p.Key == ast.Expr(id) {
				return
			}
		}
		if fi.useWrites(stack, len(stack)-1, seen) {
			written = true
		}
	})
	return written
}

// aliasWritten: the pointer was stored in a struct field named k; is there, anywhere in the file, a write through
// a selector chain passing through .k (or does .k escape further)?
func (fi *fileInfo) aliasWritten(k string, seen map[string]bool) bool {
	key := "field:" + k
	if seen[key] {
		return false
	}
	seen[key] = true
	written := false
	fi.walk(fi.file, func(stack []ast.Node) {
		s, ok := stack[len(stack)-1].(*ast.SelectorExpr)
		if !ok || s.Sel.Name != k || len(stack) < 2 {
			return
		}
		if fi.useWrites(stack, len(stack)-1, seen) {
			written = true
		}
	})
	return written
}

func (fi *fileInfo) walk(root ast.Node, f func(stack []ast.Node)) {
	var stack []ast.Node
	ast.Inspect(root, func(n ast.Node) bool {
		if n == nil {
			stack = stack[:len(stack)-1]
			return true
		}
		stack = append(stack, n)
		f(stack)
		return true
	})
}

// useWrites: stack[i] is an expression whose value is the pointer.  Does this use (possibly) write through it?
func (fi *fileInfo) useWrites(stack []ast.Node, i int, seen map[string]bool) bool {
	if i == 0 {
		return true
	}
	cur := stack[i]
	switch p := stack[i-1].(type) {
	case *ast.ParenExpr:
		return fi.useWrites(stack, i-1, seen)
	case *ast.SelectorExpr:
		return fi.derefWrites(stack, i-1)
	case *ast.StarExpr:
		return fi.derefWrites(stack, i-1)
	case *ast.IndexExpr:
		if p.X == cur {
			return fi.derefWrites(stack, i-1)
		}
		return false
	case *ast.BinaryExpr:
		return !(p.Op == token.EQL || p.Op == token.NEQ)
	case *ast.KeyValueExpr:
		if p.Value != cur {
			return false
		}
		if id, ok := p.Key.(*ast.Ident); ok {
			return fi.aliasWritten(id.Name, seen)
		}
		return true
	case *ast.CallExpr:
		for j, a := range p.Args {
			if a == cur {
				return fi.calleeWrites(p, j, seen)
			}
		}
		return true
	case *ast.AssignStmt:
		for _, l := range p.Lhs {
			if l == cur {
				return false // the variable / field itself is re-bound; nothing is written through the pointer
			}
		}
		if len(p.Lhs) == len(p.Rhs) {
			for j, r := range p.Rhs {
				if r != cur {
					continue
				}
				switch l := p.Lhs[j].(type) {
				case *ast.SelectorExpr:
					return fi.aliasWritten(l.Sel.Name, seen)
				case *ast.Ident:
					if l.Name == "_" {
						return false
					}
				}
			}
		}
		return true
	}
	return true // returned, stored in a local, put in an unkeyed literal, captured ...: not followed
}

// derefWrites: stack[j] dereferences the pointer (p.X, *p, p[i]); is the designated location assigned?
func (fi *fileInfo) derefWrites(stack []ast.Node, j int) bool {
	for j > 0 {
		cur := stack[j]
		up := false
		switch p := stack[j-1].(type) {
		case *ast.ParenExpr, *ast.StarExpr:
			up = true
		case *ast.SelectorExpr:
			up = p.X == cur
		case *ast.IndexExpr:
			up = p.X == cur
		case *ast.SliceExpr:
			up = p.X == cur
		}
		if !up {
			break
		}
		j--
	}
	if j == 0 {
		return false
	}
	top := stack[j]
	switch p := stack[j-1].(type) {
	case *ast.AssignStmt:
		for _, l := range p.Lhs {
			if l == top {
				return true
			}
		}
	case *ast.IncDecStmt:
		return true
	case *ast.UnaryExpr:
		return p.Op == token.AND
	case *ast.RangeStmt:
		return p.Key == top || p.Value == top
	}
	return false
}
