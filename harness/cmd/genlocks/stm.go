package main

import "strings"

// stm mirrors the Coq type
//
//	Inductive stm := SSkip | SDo a | SDefer a | SReturn | SSeq s1 s2 | SIf s1 s2 | SLoop b.
//
// Sequences are kept as lists and printed with the Coq helper sseq.
type stm struct {
	kind   int
	a      act
	list   []*stm // sSeq
	s1, s2 *stm   // sIf (both), sLoop (s1)
}

const (
	sSkip = iota
	sDo
	sDefer
	sReturn
	sSeq
	sIf
	sLoop
)

func skipS() *stm        { return &stm{kind: sSkip} }
func returnS() *stm      { return &stm{kind: sReturn} }
func ifS(a, b *stm) *stm { return &stm{kind: sIf, s1: a, s2: b} }
func loopS(b *stm) *stm  { return &stm{kind: sLoop, s1: b} }
func opS(m mop) *stm {
	switch m.k {
	case kDo:
		return &stm{kind: sDo, a: m.a}
	case kDefer:
		return &stm{kind: sDefer, a: m.a}
	}
	return returnS()
}

// seqS builds a flattened sequence; skips are dropped.
func seqS(parts ...*stm) *stm {
	var l []*stm
	for _, p := range parts {
		switch {
		case p == nil || p.kind == sSkip:
		case p.kind == sSeq:
			l = append(l, p.list...)
		default:
			l = append(l, p)
		}
	}
	switch len(l) {
	case 0:
		return skipS()
	case 1:
		return l[0]
	}
	return &stm{kind: sSeq, list: l}
}

// pathsToStm: a set of straight-line op lists as a nested SIf (used for inlined callees).
func pathsToStm(ps pset) *stm {
	if len(ps) == 0 {
		return skipS()
	}
	var one = func(p path) *stm {
		parts := make([]*stm, len(p))
		for i, m := range p {
			parts[i] = opS(m)
		}
		return seqS(parts...)
	}
	res := one(ps[len(ps)-1])
	for i := len(ps) - 2; i >= 0; i-- {
		res = ifS(one(ps[i]), res)
	}
	return res
}

func (s *stm) hasDefer() bool {
	switch s.kind {
	case sDefer:
		return true
	case sSeq:
		for _, x := range s.list {
			if x.hasDefer() {
				return true
			}
		}
	case sIf:
		return s.s1.hasDefer() || s.s2.hasDefer()
	case sLoop:
		return s.s1.hasDefer()
	}
	return false
}

// unfold enumerates the 0/1 unfoldings: fall-through op lists and op lists ended by SReturn.
// limit guards against explosion (ok=false).
func (s *stm) unfold(limit int) (ft, term pset, ok bool) {
	switch s.kind {
	case sSkip:
		return unit(), nil, true
	case sDo:
		return single(doOp(s.a)), nil, true
	case sDefer:
		return single(deferOp(s.a)), nil, true
	case sReturn:
		return nil, single(retOp()), true
	case sSeq:
		ft = unit()
		for _, x := range s.list {
			f, t, k := x.unfold(limit)
			if !k || len(ft)*(len(f)+len(t)) > limit {
				return nil, nil, false
			}
			term = union(term, seq(ft, t))
			ft = seq(ft, f)
			if len(ft) == 0 {
				break
			}
		}
		return ft, term, true
	case sIf:
		f1, t1, k1 := s.s1.unfold(limit)
		f2, t2, k2 := s.s2.unfold(limit)
		return union(f1, f2), union(t1, t2), k1 && k2
	case sLoop:
		f, t, k := s.s1.unfold(limit)
		return union(unit(), f), t, k
	}
	return nil, nil, false
}

func (r *renderer) stm(s *stm) string {
	atom := func(x *stm) string {
		t := r.stm(x)
		if x.kind == sSkip || x.kind == sReturn {
			return t
		}
		return "(" + t + ")"
	}
	switch s.kind {
	case sSkip:
		return "SSkip"
	case sReturn:
		return "SReturn"
	case sDo, sDefer:
		t, compound := r.act(s.a)
		if compound {
			t = "(" + t + ")"
		}
		if s.kind == sDefer {
			return "SDefer " + t
		}
		return "SDo " + t
	case sSeq:
		parts := make([]string, len(s.list))
		for i, x := range s.list {
			parts[i] = r.stm(x)
		}
		return "sseq [" + strings.Join(parts, "; ") + "]"
	case sIf:
		return "SIf " + atom(s.s1) + " " + atom(s.s2)
	case sLoop:
		return "SLoop " + atom(s.s1)
	}
	return "?"
}
