// genlocks translates the locking structure of storage/memory/memory.go and bql/table/table.go into Coq
// (coq/Conc/Gen/LockFactsGen.v): for every method of a mutex-protected struct the set of syntactic paths through
// its body as lists of micro-operations (lock acquire/release, field read/write, parameter read/write, channel
// send/close), plus normal-form hashes of the textual copies of the indexed lookup.
//
// usage (cwd = repository root):  genlocks -o <file.v>   |   genlocks -dump
package main

import (
	"bytes"
	"flag"
	"fmt"
	"go/ast"
	"io"
	"os"
	"path/filepath"
	"sort"
	"strings"
)

const (
	memoryFile = "storage/memory/memory.go"
	tableFile  = "bql/table/table.go"
)

var errOut io.Writer = os.Stderr

func exit(code int) { os.Exit(code) }

type methodOut struct {
	name     string
	hasChan  bool
	isLookup bool
	paths    pset
	body     *stm
}

type fileOut struct {
	fi          *fileInfo
	methods     []methodOut
	unsupported [][2]string
	guard       []int // per field id: lock id or -1
}

// analyzeFile analyses all methods of all classes of one file, in source order.
func analyzeFile(name string, soft bool) *fileOut {
	fi := loadFile(name, soft)
	out := &fileOut{fi: fi}
	if len(fi.classOrder) == 0 {
		fi.abort(fi.file.Pos(), "file without a mutex-protected struct")
	}
	for _, d := range fi.file.Decls {
		fn, ok := d.(*ast.FuncDecl)
		if !ok {
			continue
		}
		if fn.Recv == nil {
			// a plain function that is handed objects of a class works on several objects at once
			for _, fld := range fn.Type.Params.List {
				if cl := fi.classOfType(fld.Type); cl != nil {
					if !soft {
						fi.abort(fld.Pos(), "plain function %s with a parameter of lock-protected class %s", fn.Name.Name, cl.name)
					}
					out.unsupported = append(out.unsupported, [2]string{fn.Name.Name,
						fmt.Sprintf("%s:%d: plain function with parameters of class %s (locks and fields of several objects)",
							name, fi.fset.Position(fn.Pos()).Line, cl.name)})
					break
				}
			}
			continue
		}
		cl := fi.classes[recvTypeName(fn)]
		if cl == nil {
			continue
		}
		full := cl.name + "." + fn.Name.Name
		r := fi.analyze(fn)
		if r.err != nil {
			out.unsupported = append(out.unsupported, [2]string{full,
				fmt.Sprintf("%s:%d:%d: unexpected %s", r.err.pos.Filename, r.err.pos.Line, r.err.pos.Column, r.err.what)})
			continue
		}
		selfCheck(fi, full, r)
		c := fi.newCtx(fn)
		out.methods = append(out.methods, methodOut{name: full, hasChan: c.chanName != "",
			isLookup: c.chanName != "" && len(c.ptrParams) > 0, paths: r.paths, body: r.body})
	}
	written := make([]bool, len(fi.fieldNames))
	for _, m := range out.methods {
		for _, p := range m.paths {
			for _, o := range p {
				if o.k != kReturn && o.a.kind == "Wr" {
					written[o.a.id] = true
				}
			}
		}
	}
	out.guard = make([]int, len(fi.fieldNames))
	for _, cl := range fi.classOrder {
		for _, f := range cl.fields {
			out.guard[f] = -1
			if written[f] {
				out.guard[f] = cl.lockID
			}
		}
	}
	return out
}

// selfCheck: the 0/1 unfoldings of the structured body must be exactly the flat paths (as a set), and no control
// path of the body may fall off the end.  A difference is a translator bug: always fatal.
func selfCheck(fi *fileInfo, name string, r *mresult) {
	fail := func(format string, args ...interface{}) {
		fmt.Fprintf(errOut, "genlocks: internal error: self-check of %s (%s) failed: %s\n", name, fi.name, fmt.Sprintf(format, args...))
		exit(2)
	}
	ft, term, ok := r.body.unfold(maxPaths)
	if !ok {
		fail("path explosion while unfolding the structured body")
	}
	if len(ft) != 0 {
		fail("%d unfoldings of the structured body do not end in SReturn", len(ft))
	}
	flat := map[string]bool{}
	for _, p := range r.paths {
		flat[p.key()] = true
	}
	str := map[string]bool{}
	rd := &renderer{fi: fi, human: true}
	for _, p := range term {
		str[p.key()] = true
		if !flat[p.key()] {
			fail("unfolding %s of m_body is not in m_paths", rd.path(p))
		}
	}
	for _, p := range r.paths {
		if !str[p.key()] {
			fail("path %s of m_paths is not an unfolding of m_body", rd.path(p))
		}
	}
}

// ---------------------------------------------------------------- rendering

type renderer struct {
	fi     *fileInfo
	params map[string]int
	human  bool
}

func (r *renderer) act(a act) (string, bool) {
	switch a.kind {
	case "Acq", "Rel":
		if r.human {
			return fmt.Sprintf("%s %s %s", a.kind, r.fi.lockNames[a.id], a.mode), true
		}
		return fmt.Sprintf("%s %d %s", a.kind, a.id, a.mode), true
	case "Rd", "Wr":
		if r.human {
			return fmt.Sprintf("%s %s", a.kind, r.fi.fieldNames[a.id]), true
		}
		return fmt.Sprintf("%s %d", a.kind, a.id), true
	case "RdParam", "WrParam":
		if r.human {
			return fmt.Sprintf("%s %s", a.kind, a.pname), true
		}
		return fmt.Sprintf("%s %d", a.kind, r.params[a.pname]), true
	case "ChanNil":
		return fmt.Sprintf("ChanNil %v", a.b), true
	}
	return a.kind, false
}

func (r *renderer) mop(m mop) string {
	if m.k == kReturn {
		return "Return"
	}
	s, compound := r.act(m.a)
	if compound {
		s = "(" + s + ")"
	}
	if m.k == kDefer {
		return "Defer " + s
	}
	return "Do " + s
}

func (r *renderer) path(p path) string {
	parts := make([]string, len(p))
	for i, m := range p {
		parts[i] = r.mop(m)
	}
	return "[" + strings.Join(parts, "; ") + "]"
}

func coqStr(s string) string { return `"` + strings.ReplaceAll(s, `"`, `""`) + `"` }

func natStrList(names []string) string {
	parts := make([]string, len(names))
	for i, n := range names {
		parts[i] = fmt.Sprintf("(%d, %s)", i, coqStr(n))
	}
	return "[" + strings.Join(parts, "; ") + "]"
}

func collectParams(outs ...*fileOut) ([]string, map[string]int) {
	set := map[string]bool{}
	for _, o := range outs {
		for _, m := range o.methods {
			for _, p := range m.paths {
				for _, x := range p {
					if x.k != kReturn && (x.a.kind == "RdParam" || x.a.kind == "WrParam") {
						set[x.a.pname] = true
					}
				}
			}
		}
	}
	var names []string
	for n := range set {
		names = append(names, n)
	}
	sort.Strings(names)
	ids := map[string]int{}
	for i, n := range names {
		ids[n] = i
	}
	return names, ids
}

func hasWrParam(o *fileOut) bool {
	for _, m := range o.methods {
		for _, p := range m.paths {
			for _, x := range p {
				if x.k != kReturn && x.a.kind == "WrParam" {
					return true
				}
			}
		}
	}
	return false
}

func emitTable(b *bytes.Buffer, prefix string, o *fileOut, params map[string]int) {
	r := &renderer{fi: o.fi, params: params}
	var g []string
	for f, l := range o.guard {
		if l < 0 {
			g = append(g, fmt.Sprintf("(%d, None)", f))
		} else {
			g = append(g, fmt.Sprintf("(%d, Some %d)", f, l))
		}
	}
	fmt.Fprintf(b, "Definition %s_guard : list (fieldid * option lockid) := [%s].\n", prefix, strings.Join(g, "; "))
	fmt.Fprintf(b, "Definition %s_methods_list : list method := [\n", prefix)
	for i, m := range o.methods {
		fmt.Fprintf(b, "  {| m_name := %s; m_chan := %v; m_paths := [\n", coqStr(m.name), m.hasChan)
		for j, p := range m.paths {
			sep := ";"
			if j == len(m.paths)-1 {
				sep = " ];"
			}
			fmt.Fprintf(b, "       %s%s\n", r.path(p), sep)
		}
		if len(m.paths) == 0 {
			b.WriteString("       ];\n")
		}
		fmt.Fprintf(b, "     m_body := %s |}\n", r.stm(m.body))
		if i != len(o.methods)-1 {
			b.Truncate(b.Len() - 1)
			b.WriteString(";\n")
		}
	}
	b.WriteString("].\n")
	fmt.Fprintf(b, "Definition %s_methods : mtable := {| mt_guard := %s_guard; mt_methods := %s_methods_list |}.\n", prefix, prefix, prefix)
	var pc []string
	for _, m := range o.methods {
		pc = append(pc, fmt.Sprintf("(%s, %d)", coqStr(m.name), len(m.paths)))
	}
	fmt.Fprintf(b, "Definition %s_path_counts : list (string * nat) := [%s].\n", prefix, strings.Join(pc, "; "))
}

func emitNames(b *bytes.Buffer, prefix string, fi *fileInfo) {
	fmt.Fprintf(b, "Definition %slock_names : list (nat * string) := %s.\n", prefix, natStrList(fi.lockNames))
	for i, n := range fi.lockNames {
		fmt.Fprintf(b, "Definition lk_%s : lockid := %d.\n", coqIdent(n), i)
	}
	fmt.Fprintf(b, "Definition %sfield_names : list (nat * string) := %s.\n", prefix, natStrList(fi.fieldNames))
	for i, n := range fi.fieldNames {
		fmt.Fprintf(b, "Definition fd_%s : fieldid := %d.\n", coqIdent(n), i)
	}
}

func commentSafe(s string) string {
	s = strings.ReplaceAll(s, "(*", "( *")
	s = strings.ReplaceAll(s, "*)", "* )")
	return strings.ReplaceAll(s, `"`, "'")
}

func generate(mem, tab *fileOut, hashes []lookupHash) []byte {
	var b bytes.Buffer
	fmt.Fprintf(&b, "(* GENERATED by harness/cmd/genlocks from %s and %s. Do not edit. *)\n", memoryFile, tableFile)
	b.WriteString("From Coq Require Import List String.\nImport ListNotations.\nFrom BWConc Require Import Conc.\nOpen Scope string_scope.\n\n")
	emitNames(&b, "", mem.fi)
	pnames, pids := collectParams(mem, tab)
	fmt.Fprintf(&b, "Definition param_names : list (nat * string) := %s.\n", natStrList(pnames))
	for i, n := range pnames {
		fmt.Fprintf(&b, "Definition pm_%s : paramid := %d.\n", coqIdent(n), i)
	}
	b.WriteString("\n")
	emitTable(&b, "memory", mem, pids)
	fmt.Fprintf(&b, "Definition memory_has_wrparam : bool := %v.\n", hasWrParam(mem))
	var ln, lh []string
	for _, h := range hashes {
		ln = append(ln, coqStr(h.name))
		lh = append(lh, fmt.Sprintf("(%s, %s)", coqStr(h.name), coqStr(h.hash)))
	}
	fmt.Fprintf(&b, "Definition memory_lookup_names : list string := [%s].\n", strings.Join(ln, "; "))
	fmt.Fprintf(&b, "Definition memory_lookup_hashes : list (string * string) := [\n  %s].\n", strings.Join(lh, ";\n  "))
	b.WriteString("\n(* ---- bql/table/table.go ---- *)\n")
	emitNames(&b, "table_", tab.fi)
	emitTable(&b, "table", tab, pids)
	fmt.Fprintf(&b, "Definition table_has_wrparam : bool := %v.\n", hasWrParam(tab))
	var us []string
	for _, u := range tab.unsupported {
		us = append(us, fmt.Sprintf("(%s, %s)", coqStr(u[0]), coqStr(u[1])))
	}
	fmt.Fprintf(&b, "Definition table_unsupported : list (string * string) := [\n  %s].\n", strings.Join(us, ";\n  "))
	if len(hashes) > 0 {
		fmt.Fprintf(&b, "\n(* normal form of %s (what memory_lookup_hashes hashes; quotes shown as ', comment brackets spaced):\n%s\n*)\n",
			hashes[0].name, commentSafe(hashes[0].text))
	}
	return b.Bytes()
}

func dump(w io.Writer, o *fileOut) {
	r := &renderer{fi: o.fi, human: true}
	fmt.Fprintf(w, "==== %s\n", o.fi.name)
	for f, l := range o.guard {
		g := "None (never written)"
		if l >= 0 {
			g = o.fi.lockNames[l]
		}
		fmt.Fprintf(w, "guard %s: %s\n", o.fi.fieldNames[f], g)
	}
	for _, m := range o.methods {
		fmt.Fprintf(w, "%s  chan=%v  paths=%d\n", m.name, m.hasChan, len(m.paths))
		for _, p := range m.paths {
			fmt.Fprintf(w, "    %s\n", r.path(p))
		}
		fmt.Fprintf(w, "    body: %s\n", r.stm(m.body))
	}
	for _, u := range o.unsupported {
		fmt.Fprintf(w, "UNSUPPORTED %s: %s\n", u[0], u[1])
	}
}

func main() {
	outFile := flag.String("o", "", "Coq file to write (write-if-changed)")
	doDump := flag.Bool("dump", false, "print the paths human-readably to stdout, write no file")
	flag.Parse()
	if flag.NArg() != 0 || (*outFile == "") == !*doDump {
		fmt.Fprintln(errOut, "usage: genlocks -o <file.v> | genlocks -dump   (cwd = repository root)")
		exit(2)
	}
	defer func() {
		if x := recover(); x != nil {
			if ae, ok := x.(*abortErr); ok {
				fmt.Fprintf(errOut, "genlocks: %s\n", ae.Error())
				exit(2)
			}
			panic(x)
		}
	}()
	mem := analyzeFile(memoryFile, false)
	tab := analyzeFile(tableFile, true)
	lookups := map[string]bool{}
	for _, m := range mem.methods {
		if m.isLookup {
			lookups[m.name] = true
		}
	}
	hashes := hashLookups(mem.fi, lookups)
	if *doDump {
		dump(os.Stdout, mem)
		for _, h := range hashes {
			fmt.Printf("hash %s %s\n", h.name, h.hash)
		}
		dump(os.Stdout, tab)
		return
	}
	content := generate(mem, tab, hashes)
	if old, err := os.ReadFile(*outFile); err == nil && bytes.Equal(old, content) {
		return
	}
	if err := os.MkdirAll(filepath.Dir(*outFile), 0o755); err != nil {
		fmt.Fprintf(errOut, "genlocks: %v\n", err)
		exit(2)
	}
	if err := os.WriteFile(*outFile, content, 0o644); err != nil {
		fmt.Fprintf(errOut, "genlocks: %v\n", err)
		exit(2)
	}
}
