package main

import (
	"fmt"
	"go/ast"
	"go/parser"
	"go/token"
	"go/types"
	gopath "path"
	"strconv"
	"strings"
)

const maxPaths = 200000

// abortErr is raised (by panic) on any construct the translator does not understand.
type abortErr struct {
	pos  token.Position
	what string
}

func (e *abortErr) Error() string {
	return fmt.Sprintf("%s:%d:%d: unexpected %s", e.pos.Filename, e.pos.Line, e.pos.Column, e.what)
}

type class struct {
	name      string
	lockField string
	lockID    int
	lockKind  string         // RWMutex | Mutex
	fields    map[string]int // field name -> global field id
}

type mresult struct {
	paths pset
	err   *abortErr
	busy  bool
	done  bool
}

type fileInfo struct {
	fset          *token.FileSet
	name          string
	file          *ast.File
	soft          bool // aborts inside a method are recorded per method instead of terminating
	classes       map[string]*class
	classOrder    []*class
	lockNames     []string
	fieldNames    []string
	imports       map[string]bool
	funcs         map[string]*ast.FuncDecl
	methods       map[string]map[string]*ast.FuncDecl
	methodsByName map[string][]*ast.FuncDecl
	results       map[*ast.FuncDecl]*mresult
	writtenMemo   map[string]bool
}

func (fi *fileInfo) abort(pos token.Pos, format string, args ...interface{}) {
	panic(&abortErr{pos: fi.fset.Position(pos), what: fmt.Sprintf(format, args...)})
}

func unparen(e ast.Expr) ast.Expr {
	for {
		p, ok := e.(*ast.ParenExpr)
		if !ok {
			return e
		}
		e = p.X
	}
}

func isSyncType(e ast.Expr) string {
	s, ok := e.(*ast.SelectorExpr)
	if !ok {
		return ""
	}
	x, ok := s.X.(*ast.Ident)
	if !ok || x.Name != "sync" {
		return ""
	}
	if s.Sel.Name == "RWMutex" || s.Sel.Name == "Mutex" {
		return s.Sel.Name
	}
	return ""
}

func recvTypeName(fn *ast.FuncDecl) string {
	if fn.Recv == nil || len(fn.Recv.List) != 1 {
		return ""
	}
	t := fn.Recv.List[0].Type
	if s, ok := t.(*ast.StarExpr); ok {
		t = s.X
	}
	if id, ok := t.(*ast.Ident); ok {
		return id.Name
	}
	return ""
}

func loadFile(name string, soft bool) *fileInfo {
	fi := &fileInfo{
		fset: token.NewFileSet(), name: name, soft: soft,
		classes: map[string]*class{}, imports: map[string]bool{},
		funcs: map[string]*ast.FuncDecl{}, methods: map[string]map[string]*ast.FuncDecl{},
		methodsByName: map[string][]*ast.FuncDecl{}, results: map[*ast.FuncDecl]*mresult{},
		writtenMemo: map[string]bool{},
	}
	f, err := parser.ParseFile(fi.fset, name, nil, parser.SkipObjectResolution)
	if err != nil {
		fmt.Fprintf(errOut, "genlocks: %v\n", err)
		exit(2)
	}
	fi.file = f
	for _, im := range f.Imports {
		p, _ := strconv.Unquote(im.Path.Value)
		n := gopath.Base(p)
		if im.Name != nil {
			n = im.Name.Name
		}
		fi.imports[n] = true
	}
	for _, d := range f.Decls {
		gd, ok := d.(*ast.GenDecl)
		if !ok || gd.Tok != token.TYPE {
			continue
		}
		for _, sp := range gd.Specs {
			ts := sp.(*ast.TypeSpec)
			st, ok := ts.Type.(*ast.StructType)
			if !ok {
				continue
			}
			fi.scanStruct(ts, st)
		}
	}
	for _, d := range f.Decls {
		fn, ok := d.(*ast.FuncDecl)
		if !ok {
			continue
		}
		if fn.Recv == nil {
			fi.funcs[fn.Name.Name] = fn
			continue
		}
		rt := recvTypeName(fn)
		if fi.methods[rt] == nil {
			fi.methods[rt] = map[string]*ast.FuncDecl{}
		}
		fi.methods[rt][fn.Name.Name] = fn
		fi.methodsByName[fn.Name.Name] = append(fi.methodsByName[fn.Name.Name], fn)
	}
	return fi
}

func (fi *fileInfo) scanStruct(ts *ast.TypeSpec, st *ast.StructType) {
	hasLock := false
	for _, fld := range st.Fields.List {
		if isSyncType(fld.Type) != "" {
			hasLock = true
		}
		if s, ok := fld.Type.(*ast.StarExpr); ok && isSyncType(s.X) != "" {
			fi.abort(fld.Pos(), "pointer to mutex in struct %s", ts.Name.Name)
		}
	}
	if !hasLock {
		return
	}
	c := &class{name: ts.Name.Name, fields: map[string]int{}}
	for _, fld := range st.Fields.List {
		if len(fld.Names) == 0 {
			fi.abort(fld.Pos(), "embedded field in lock-protected struct %s", c.name)
		}
		k := isSyncType(fld.Type)
		for _, n := range fld.Names {
			if k != "" {
				if c.lockField != "" {
					fi.abort(n.Pos(), "second mutex field %s.%s (one mutex per struct supported)", c.name, n.Name)
				}
				c.lockField, c.lockKind, c.lockID = n.Name, k, len(fi.lockNames)
				fi.lockNames = append(fi.lockNames, c.name+"."+n.Name)
				continue
			}
			c.fields[n.Name] = len(fi.fieldNames)
			fi.fieldNames = append(fi.fieldNames, c.name+"."+n.Name)
		}
	}
	fi.classes[c.name] = c
	fi.classOrder = append(fi.classOrder, c)
}

// classOfType returns the class if t is C or *C for a class C of this file.
func (fi *fileInfo) classOfType(t ast.Expr) *class {
	if s, ok := t.(*ast.StarExpr); ok {
		t = s.X
	}
	if id, ok := t.(*ast.Ident); ok {
		return fi.classes[id.Name]
	}
	return nil
}

var immutablePtr = map[string]bool{
	"*node.Node": true, "*predicate.Predicate": true, "*triple.Object": true, "*triple.Triple": true,
	"*literal.Literal": true, "*time.Time": true,
}

// mctx is the analysis context of one method.
type mctx struct {
	fi        *fileInfo
	cls       *class
	fn        *ast.FuncDecl
	recv      string
	chanName  string
	ptrParams map[string]bool // parameters of type *storage.LookupOptions
	others    map[string]bool // parameters whose type is a class of this file (a different object)
}

func (c *mctx) tracked(name string) bool {
	if name == "" || name == "_" {
		return false
	}
	return name == c.recv || name == c.chanName || c.ptrParams[name] || c.others[name]
}

func (c *mctx) checkDecl(id *ast.Ident) {
	if c.tracked(id.Name) {
		c.fi.abort(id.Pos(), "redeclaration (shadowing) of tracked identifier %s", id.Name)
	}
}

func (fi *fileInfo) newCtx(fn *ast.FuncDecl) *mctx {
	c := &mctx{fi: fi, fn: fn, ptrParams: map[string]bool{}, others: map[string]bool{}}
	c.cls = fi.classes[recvTypeName(fn)]
	if names := fn.Recv.List[0].Names; len(names) == 1 {
		c.recv = names[0].Name
	}
	for _, fld := range fn.Type.Params.List {
		c.classifyParam(fld)
	}
	if fn.Type.Results != nil {
		for _, fld := range fn.Type.Results.List {
			for _, n := range fld.Names {
				c.checkDecl(n)
			}
		}
	}
	return c
}

func (c *mctx) classifyParam(fld *ast.Field) {
	fi := c.fi
	t := fld.Type
	text := types.ExprString(t)
	named := func(f func(n string)) {
		for _, n := range fld.Names {
			if n.Name != "_" {
				if n.Name == c.recv {
					fi.abort(n.Pos(), "parameter named like the receiver")
				}
				f(n.Name)
			}
		}
	}
	switch tt := t.(type) {
	case *ast.ChanType:
		if tt.Dir == ast.RECV {
			fi.abort(t.Pos(), "receive-only channel parameter")
		}
		named(func(n string) {
			if c.chanName != "" {
				fi.abort(t.Pos(), "second channel parameter %s", n)
			}
			c.chanName = n
		})
		return
	case *ast.StarExpr:
		if text == "*storage.LookupOptions" {
			named(func(n string) { c.ptrParams[n] = true })
			return
		}
		if fi.classOfType(t) != nil {
			named(func(n string) { c.others[n] = true })
			return
		}
		if immutablePtr[text] {
			return
		}
		fi.abort(t.Pos(), "pointer parameter type %s (not known to be immutable)", text)
	case *ast.Ident:
		if fi.classes[tt.Name] != nil {
			named(func(n string) { c.others[n] = true })
		}
		return
	}
	// any other type: must not smuggle in objects of a class
	ast.Inspect(t, func(n ast.Node) bool {
		if id, ok := n.(*ast.Ident); ok && fi.classes[id.Name] != nil {
			fi.abort(t.Pos(), "parameter type %s mentions class %s", text, id.Name)
		}
		return true
	})
}

func (c *mctx) hasTrackedParams() bool {
	return c.chanName != "" || len(c.ptrParams) > 0 || len(c.others) > 0
}

// analyze returns the complete paths (each ending in Return) of a method; memoised.
func (fi *fileInfo) analyze(fn *ast.FuncDecl) (res *mresult) {
	if r := fi.results[fn]; r != nil {
		if r.busy {
			fi.abort(fn.Pos(), "recursive method %s", fn.Name.Name)
		}
		return r
	}
	r := &mresult{busy: true}
	fi.results[fn] = r
	defer func() {
		r.busy = false
		r.done = true
		if x := recover(); x != nil {
			ae, ok := x.(*abortErr)
			if !ok || !fi.soft {
				panic(x)
			}
			r.err = ae
			res = r
		}
	}()
	if fn.Body == nil {
		fi.abort(fn.Pos(), "method without body")
	}
	c := fi.newCtx(fn)
	ft, term := c.block(fn.Body.List)
	r.paths = union(term, c.seqAt(fn.Body.Rbrace, ft, single(retOp())))
	return r
}

func (c *mctx) seqAt(pos token.Pos, a, b pset) pset {
	if len(a)*len(b) > maxPaths {
		c.fi.abort(pos, "path explosion (more than %d paths)", maxPaths)
	}
	return seq(a, b)
}

// block returns the fall-through paths and the paths terminated by a return.
func (c *mctx) block(stmts []ast.Stmt) (ft, term pset) {
	ft = unit()
	for _, s := range stmts {
		f, t := c.stmt(s)
		term = union(term, c.seqAt(s.Pos(), ft, t))
		ft = c.seqAt(s.Pos(), ft, f)
	}
	return ft, term
}

func (c *mctx) stmt(s ast.Stmt) (ft, term pset) {
	fi := c.fi
	switch s := s.(type) {
	case *ast.EmptyStmt:
		return unit(), nil
	case *ast.BlockStmt:
		return c.block(s.List)
	case *ast.ExprStmt:
		e := c.newEv()
		e.expr(s.X)
		return e.cur, nil
	case *ast.AssignStmt:
		e := c.newEv()
		e.assign(s)
		return e.cur, nil
	case *ast.IncDecStmt:
		e := c.newEv()
		e.expr(s.X)
		if w := e.lhs(s.X); w != nil {
			e.emit(*w)
		}
		return e.cur, nil
	case *ast.DeclStmt:
		e := c.newEv()
		e.decl(s)
		return e.cur, nil
	case *ast.SendStmt:
		id, ok := unparen(s.Chan).(*ast.Ident)
		if !ok || c.chanName == "" || id.Name != c.chanName {
			fi.abort(s.Pos(), "send on something that is not the channel parameter")
		}
		e := c.newEv()
		e.expr(s.Value)
		e.emit(doOp(act{kind: "Send"}))
		return e.cur, nil
	case *ast.DeferStmt:
		e := c.newEv()
		e.deferStmt(s)
		return e.cur, nil
	case *ast.ReturnStmt:
		e := c.newEv()
		for _, r := range s.Results {
			e.expr(r)
		}
		e.emit(retOp())
		return nil, e.cur
	case *ast.IfStmt:
		return c.ifStmt(s)
	case *ast.ForStmt:
		return c.forStmt(s)
	case *ast.RangeStmt:
		return c.rangeStmt(s)
	case *ast.SwitchStmt:
		return c.switchStmt(s)
	case *ast.TypeSwitchStmt:
		return c.typeSwitchStmt(s)
	case *ast.BranchStmt:
		fi.abort(s.Pos(), "%s statement", s.Tok)
	case *ast.GoStmt:
		fi.abort(s.Pos(), "go statement")
	case *ast.SelectStmt:
		fi.abort(s.Pos(), "select statement")
	case *ast.LabeledStmt:
		fi.abort(s.Pos(), "labeled statement")
	}
	fi.abort(s.Pos(), "statement %T", s)
	return nil, nil
}

// simple runs an init/post statement, which must not return.
func (c *mctx) simple(s ast.Stmt) pset {
	if s == nil {
		return unit()
	}
	f, t := c.stmt(s)
	if len(t) != 0 {
		c.fi.abort(s.Pos(), "returning init/post statement")
	}
	return f
}

// chanNilCond recognises `ch == nil` / `ch != nil` on the channel parameter.
func (c *mctx) chanNilCond(cond ast.Expr) (matched bool, nilWhenTrue bool) {
	b, ok := unparen(cond).(*ast.BinaryExpr)
	if !ok || c.chanName == "" || (b.Op != token.EQL && b.Op != token.NEQ) {
		return false, false
	}
	x, okx := unparen(b.X).(*ast.Ident)
	y, oky := unparen(b.Y).(*ast.Ident)
	if !okx || !oky {
		return false, false
	}
	if (x.Name == c.chanName && y.Name == "nil") || (y.Name == c.chanName && x.Name == "nil") {
		return true, b.Op == token.EQL
	}
	return false, false
}

func (c *mctx) ifStmt(s *ast.IfStmt) (ft, term pset) {
	pre := c.simple(s.Init)
	var thenPre, elsePre pset
	if ok, nilWhenTrue := c.chanNilCond(s.Cond); ok {
		thenPre = single(doOp(act{kind: "ChanNil", b: nilWhenTrue}))
		elsePre = single(doOp(act{kind: "ChanNil", b: !nilWhenTrue}))
	} else {
		e := c.newEv()
		e.expr(s.Cond)
		thenPre, elsePre = e.cur, e.cur
	}
	tf, tt := c.block(s.Body.List)
	ef, et := unit(), pset(nil)
	if s.Else != nil {
		ef, et = c.stmt(s.Else)
	}
	p := s.Pos()
	ft = c.seqAt(p, pre, union(c.seqAt(p, thenPre, tf), c.seqAt(p, elsePre, ef)))
	term = c.seqAt(p, pre, union(c.seqAt(p, thenPre, tt), c.seqAt(p, elsePre, et)))
	return ft, term
}

func (c *mctx) forStmt(s *ast.ForStmt) (ft, term pset) {
	pre := c.simple(s.Init)
	if s.Cond != nil {
		e := c.newEv()
		e.expr(s.Cond)
		pre = c.seqAt(s.Pos(), pre, e.cur)
	}
	bf, bt := c.block(s.Body.List)
	post := c.simple(s.Post)
	p := s.Pos()
	ft = c.seqAt(p, pre, union(unit(), c.seqAt(p, bf, post)))
	term = c.seqAt(p, pre, bt)
	return ft, term
}

func (c *mctx) rangeStmt(s *ast.RangeStmt) (ft, term pset) {
	for _, kv := range []ast.Expr{s.Key, s.Value} {
		if kv == nil {
			continue
		}
		id, ok := kv.(*ast.Ident)
		if !ok {
			c.fi.abort(kv.Pos(), "range variable that is not an identifier")
		}
		c.checkDecl(id)
	}
	e := c.newEv()
	e.expr(s.X)
	bf, bt := c.block(s.Body.List)
	p := s.Pos()
	ft = c.seqAt(p, e.cur, union(unit(), bf))
	term = c.seqAt(p, e.cur, bt)
	return ft, term
}

func (c *mctx) clauses(pos token.Pos, pre pset, body *ast.BlockStmt, exprs bool) (ft, term pset) {
	cum := pre
	var def *ast.CaseClause
	for _, st := range body.List {
		cc := st.(*ast.CaseClause)
		if cc.List == nil {
			def = cc
			continue
		}
		if exprs {
			e := c.newEv()
			e.cur = cum
			for _, x := range cc.List {
				e.expr(x)
			}
			cum = e.cur
		}
		bf, bt := c.block(cc.Body)
		ft = union(ft, c.seqAt(pos, cum, bf))
		term = union(term, c.seqAt(pos, cum, bt))
	}
	if def != nil {
		bf, bt := c.block(def.Body)
		ft = union(ft, c.seqAt(pos, cum, bf))
		term = union(term, c.seqAt(pos, cum, bt))
	} else {
		ft = union(ft, cum)
	}
	return ft, term
}

func (c *mctx) switchStmt(s *ast.SwitchStmt) (ft, term pset) {
	pre := c.simple(s.Init)
	if s.Tag != nil {
		e := c.newEv()
		e.expr(s.Tag)
		pre = c.seqAt(s.Pos(), pre, e.cur)
	}
	return c.clauses(s.Pos(), pre, s.Body, true)
}

func (c *mctx) typeSwitchStmt(s *ast.TypeSwitchStmt) (ft, term pset) {
	pre := c.simple(s.Init)
	var x ast.Expr
	switch a := s.Assign.(type) {
	case *ast.ExprStmt:
		x = a.X
	case *ast.AssignStmt:
		if len(a.Lhs) == 1 && len(a.Rhs) == 1 {
			if id, ok := a.Lhs[0].(*ast.Ident); ok {
				c.checkDecl(id)
				x = a.Rhs[0]
			}
		}
	}
	ta, ok := x.(*ast.TypeAssertExpr)
	if !ok {
		c.fi.abort(s.Pos(), "type switch guard")
	}
	e := c.newEv()
	e.expr(ta.X)
	pre = c.seqAt(s.Pos(), pre, e.cur)
	return c.clauses(s.Pos(), pre, s.Body, false)
}

func coqIdent(s string) string {
	s = strings.ReplaceAll(s, "*", "star")
	var sb strings.Builder
	for _, r := range s {
		if (r >= 'a' && r <= 'z') || (r >= 'A' && r <= 'Z') || (r >= '0' && r <= '9') || r == '_' {
			sb.WriteRune(r)
		} else {
			sb.WriteByte('_')
		}
	}
	return sb.String()
}
