package main

import (
	"fmt"
	"go/ast"
	"go/parser"
	"go/token"
	"go/types"
	gopath "path"
	"strconv"
	"strings"
)

const maxPaths = 200000

// abortErr is raised (by panic) on any construct the translator does not understand.
type abortErr struct {
	pos  token.Position
	what string
}

func (e *abortErr) Error() string {
	return fmt.Sprintf("%s:%d:%d: unexpected %s", e.pos.Filename, e.pos.Line, e.pos.Column, e.what)
}

type class struct {
	name      string
	lockField string
	lockID    int
	lockKind  string         // RWMutex | Mutex
	fields    map[string]int // field name -> global field id
}

type mresult struct {
	paths pset
	err   *abortErr
	busy  bool
	body  *stm
	done  bool
}

type fileInfo struct {
	fset          *token.FileSet
	name          string
	file          *ast.File
	soft          bool // aborts inside a method are recorded per method instead of terminating
	classes       map[string]*class
	classOrder    []*class
	lockNames     []string
	fieldNames    []string
	imports       map[string]bool
	funcs         map[string]*ast.FuncDecl
	methods       map[string]map[string]*ast.FuncDecl
	methodsByName map[string][]*ast.FuncDecl
	results       map[*ast.FuncDecl]*mresult
	writtenMemo   map[string]bool
}

func (fi *fileInfo) abort(pos token.Pos, format string, args ...interface{}) {
	panic(&abortErr{pos: fi.fset.Position(pos), what: fmt.Sprintf(format, args...)})
}

func unparen(e ast.Expr) ast.Expr {
	for {
		p, ok := e.(*ast.ParenExpr)
		if !ok {
			return e
		}
		e = p.X
	}
}

func isSyncType(e ast.Expr) string {
	s, ok := e.(*ast.SelectorExpr)
	if !ok {
		return ""
	}
	x, ok := s.X.(*ast.Ident)
	if !ok || x.Name != "sync" {
		return ""
	}
	if s.Sel.Name == "RWMutex" || s.Sel.Name == "Mutex" {
		return s.Sel.Name
	}
	return ""
}

func recvTypeName(fn *ast.FuncDecl) string {
	if fn.Recv == nil || len(fn.Recv.List) != 1 {
		return ""
	}
	t := fn.Recv.List[0].Type
	if s, ok := t.(*ast.StarExpr); ok {
		t = s.X
	}
	if id, ok := t.(*ast.Ident); ok {
		return id.Name
	}
	return ""
}

func loadFile(name string, soft bool) *fileInfo {
	fi := &fileInfo{
		fset: token.NewFileSet(), name: name, soft: soft,
		classes: map[string]*class{}, imports: map[string]bool{},
		funcs: map[string]*ast.FuncDecl{}, methods: map[string]map[string]*ast.FuncDecl{},
		methodsByName: map[string][]*ast.FuncDecl{}, results: map[*ast.FuncDecl]*mresult{},
		writtenMemo: map[string]bool{},
	}
	f, err := parser.ParseFile(fi.fset, name, nil, parser.SkipObjectResolution)
	if err != nil {
		fmt.Fprintf(errOut, "genlocks: %v\n", err)
		exit(2)
	}
	fi.file = f
	for _, im := range f.Imports {
		p, _ := strconv.Unquote(im.Path.Value)
		n := gopath.Base(p)
		if im.Name != nil {
			n = im.Name.Name
		}
		fi.imports[n] = true
	}
	for _, d := range f.Decls {
		gd, ok := d.(*ast.GenDecl)
		if !ok || gd.Tok != token.TYPE {
			continue
		}
		for _, sp := range gd.Specs {
			ts := sp.(*ast.TypeSpec)
			st, ok := ts.Type.(*ast.StructType)
			if !ok {
				continue
			}
			fi.scanStruct(ts, st)
		}
	}
	for _, d := range f.Decls {
		fn, ok := d.(*ast.FuncDecl)
		if !ok {
			continue
		}
		if fn.Recv == nil {
			fi.funcs[fn.Name.Name] = fn
			continue
		}
		rt := recvTypeName(fn)
		if fi.methods[rt] == nil {
			fi.methods[rt] = map[string]*ast.FuncDecl{}
		}
		fi.methods[rt][fn.Name.Name] = fn
		fi.methodsByName[fn.Name.Name] = append(fi.methodsByName[fn.Name.Name], fn)
	}
	return fi
}

func (fi *fileInfo) scanStruct(ts *ast.TypeSpec, st *ast.StructType) {
	hasLock := false
	for _, fld := range st.Fields.List {
		if isSyncType(fld.Type) != "" {
			hasLock = true
		}
		if s, ok := fld.Type.(*ast.StarExpr); ok && isSyncType(s.X) != "" {
			fi.abort(fld.Pos(), "pointer to mutex in struct %s", ts.Name.Name)
		}
	}
	if !hasLock {
		return
	}
	c := &class{name: ts.Name.Name, fields: map[string]int{}}
	for _, fld := range st.Fields.List {
		if len(fld.Names) == 0 {
			fi.abort(fld.Pos(), "embedded field in lock-protected struct %s", c.name)
		}
		k := isSyncType(fld.Type)
		for _, n := range fld.Names {
			if k != "" {
				if c.lockField != "" {
					fi.abort(n.Pos(), "second mutex field %s.%s (one mutex per struct supported)", c.name, n.Name)
				}
				c.lockField, c.lockKind, c.lockID = n.Name, k, len(fi.lockNames)
				fi.lockNames = append(fi.lockNames, c.name+"."+n.Name)
				continue
			}
			c.fields[n.Name] = len(fi.fieldNames)
			fi.fieldNames = append(fi.fieldNames, c.name+"."+n.Name)
		}
	}
	fi.classes[c.name] = c
	fi.classOrder = append(fi.classOrder, c)
}

// classOfType returns the class if t is C or *C for a class C of this file.
func (fi *fileInfo) classOfType(t ast.Expr) *class {
	if s, ok := t.(*ast.StarExpr); ok {
		t = s.X
	}
	if id, ok := t.(*ast.Ident); ok {
		return fi.classes[id.Name]
	}
	return nil
}

var immutablePtr = map[string]bool{
	"*node.Node": true, "*predicate.Predicate": true, "*triple.Object": true, "*triple.Triple": true,
	"*literal.Literal": true, "*time.Time": true,
}

// mctx is the analysis context of one method.
type mctx struct {
	fi        *fileInfo
	cls       *class
	fn        *ast.FuncDecl
	recv      string
	chanName  string
	ptrParams map[string]bool // parameters of type *storage.LookupOptions
	others    map[string]bool // parameters whose type is a class of this file (a different object)
}

func (c *mctx) tracked(name string) bool {
	if name == "" || name == "_" {
		return false
	}
	return name == c.recv || name == c.chanName || c.ptrParams[name] || c.others[name]
}

func (c *mctx) checkDecl(id *ast.Ident) {
	if c.tracked(id.Name) {
		c.fi.abort(id.Pos(), "redeclaration (shadowing) of tracked identifier %s", id.Name)
	}
}

func (fi *fileInfo) newCtx(fn *ast.FuncDecl) *mctx {
	c := &mctx{fi: fi, fn: fn, ptrParams: map[string]bool{}, others: map[string]bool{}}
	c.cls = fi.classes[recvTypeName(fn)]
	if names := fn.Recv.List[0].Names; len(names) == 1 {
		c.recv = names[0].Name
	}
	for _, fld := range fn.Type.Params.List {
		c.classifyParam(fld)
	}
	if fn.Type.Results != nil {
		for _, fld := range fn.Type.Results.List {
			for _, n := range fld.Names {
				c.checkDecl(n)
			}
		}
	}
	return c
}

func (c *mctx) classifyParam(fld *ast.Field) {
	fi := c.fi
	t := fld.Type
	text := types.ExprString(t)
	named := func(f func(n string)) {
		for _, n := range fld.Names {
			if n.Name != "_" {
				if n.Name == c.recv {
					fi.abort(n.Pos(), "parameter named like the receiver")
				}
				f(n.Name)
			}
		}
	}
	switch tt := t.(type) {
	case *ast.ChanType:
		if tt.Dir == ast.RECV {
			fi.abort(t.Pos(), "receive-only channel parameter")
		}
		named(func(n string) {
			if c.chanName != "" {
				fi.abort(t.Pos(), "second channel parameter %s", n)
			}
			c.chanName = n
		})
		return
	case *ast.StarExpr:
		if text == "*storage.LookupOptions" {
			named(func(n string) { c.ptrParams[n] = true })
			return
		}
		if fi.classOfType(t) != nil {
			named(func(n string) { c.others[n] = true })
			return
		}
		if immutablePtr[text] {
			return
		}
		fi.abort(t.Pos(), "pointer parameter type %s (not known to be immutable)", text)
	case *ast.Ident:
		if fi.classes[tt.Name] != nil {
			named(func(n string) { c.others[n] = true })
		}
		return
	}
	// any other type: must not smuggle in objects of a class
	ast.Inspect(t, func(n ast.Node) bool {
		if id, ok := n.(*ast.Ident); ok && fi.classes[id.Name] != nil {
			fi.abort(t.Pos(), "parameter type %s mentions class %s", text, id.Name)
		}
		return true
	})
}

func (c *mctx) hasTrackedParams() bool {
	return c.chanName != "" || len(c.ptrParams) > 0 || len(c.others) > 0
}

func coqIdent(s string) string {
	s = strings.ReplaceAll(s, "*", "star")
	var sb strings.Builder
	for _, r := range s {
		if (r >= 'a' && r <= 'z') || (r >= 'A' && r <= 'Z') || (r >= '0' && r <= '9') || r == '_' {
			sb.WriteRune(r)
		} else {
			sb.WriteByte('_')
		}
	}
	return sb.String()
}
