package main

import (
	"go/ast"
	"go/token"
)

// ev accumulates the micro-operations of expressions in evaluation order.  cur is a set of op lists because
// an inlined call of another method of the class contributes one alternative per callee path.
type ev struct {
	c   *mctx
	cur pset
	ss  []*stm // the same micro-operations in structured form
}

func (e *ev) stm() *stm { return seqS(e.ss...) }

func (c *mctx) newEv() *ev { return &ev{c: c, cur: unit()} }

func (e *ev) emit(m mop) {
	out := make(pset, len(e.cur))
	for i, p := range e.cur {
		q := make(path, 0, len(p)+1)
		q = append(q, p...)
		out[i] = append(q, m)
	}
	e.cur = out
	e.ss = append(e.ss, opS(m))
}

func (e *ev) exprs(xs []ast.Expr) {
	for _, x := range xs {
		e.expr(x)
	}
}

func isNilIdent(x ast.Expr) bool {
	id, ok := unparen(x).(*ast.Ident)
	return ok && id.Name == "nil"
}

// recvField: x is exactly recv.f for a data field f.
func (e *ev) recvField(x ast.Expr) (int, bool) {
	s, ok := unparen(x).(*ast.SelectorExpr)
	if !ok {
		return 0, false
	}
	id, ok := s.X.(*ast.Ident)
	if !ok || e.c.recv == "" || id.Name != e.c.recv || e.c.cls == nil {
		return 0, false
	}
	f, ok := e.c.cls.fields[s.Sel.Name]
	return f, ok
}

// rootOf descends through index/slice/star/paren/selector to the base identifier and the innermost selector on it.
func rootOf(x ast.Expr) (*ast.Ident, *ast.SelectorExpr) {
	for {
		switch t := x.(type) {
		case *ast.ParenExpr:
			x = t.X
		case *ast.IndexExpr:
			x = t.X
		case *ast.SliceExpr:
			x = t.X
		case *ast.StarExpr:
			x = t.X
		case *ast.SelectorExpr:
			if id, ok := t.X.(*ast.Ident); ok {
				return id, t
			}
			x = t.X
		case *ast.Ident:
			return t, nil
		default:
			return nil, nil
		}
	}
}

func (e *ev) expr(x ast.Expr) {
	c, fi := e.c, e.c.fi
	switch t := x.(type) {
	case nil:
		return
	case *ast.BasicLit:
		return
	case *ast.ParenExpr:
		e.expr(t.X)
	case *ast.Ident:
		switch {
		case t.Name == "_" || t.Name == "":
		case t.Name == c.recv:
			fi.abort(t.Pos(), "use of the bare receiver %s (escapes the analysis)", t.Name)
		case t.Name == c.chanName:
			fi.abort(t.Pos(), "use of the channel parameter %s", t.Name)
		case c.ptrParams[t.Name]:
			fi.abort(t.Pos(), "use of the pointer parameter %s (aliasing)", t.Name)
		case c.others[t.Name]:
			fi.abort(t.Pos(), "reference to a different object %s of a lock-protected class", t.Name)
		}
	case *ast.SelectorExpr:
		if id, ok := t.X.(*ast.Ident); ok {
			switch {
			case id.Name == c.recv && c.recv != "":
				if t.Sel.Name == c.cls.lockField {
					fi.abort(t.Pos(), "use of lock field %s.%s", c.cls.name, t.Sel.Name)
				}
				if f, ok := c.cls.fields[t.Sel.Name]; ok {
					e.emit(doOp(act{kind: "Rd", id: f}))
					return
				}
				if fi.methods[c.cls.name][t.Sel.Name] != nil {
					fi.abort(t.Pos(), "method value %s.%s", id.Name, t.Sel.Name)
				}
				fi.abort(t.Pos(), "member %s.%s", c.cls.name, t.Sel.Name)
			case c.ptrParams[id.Name]:
				e.emit(doOp(act{kind: "RdParam", pname: id.Name + "." + t.Sel.Name}))
				return
			case c.others[id.Name]:
				fi.abort(t.Pos(), "reference to field or lock %s.%s of a different object", id.Name, t.Sel.Name)
			case id.Name == c.chanName && c.chanName != "":
				fi.abort(t.Pos(), "use of the channel parameter %s", id.Name)
			}
			return // local variable or package
		}
		e.expr(t.X)
	case *ast.IndexExpr:
		e.expr(t.X)
		e.expr(t.Index)
	case *ast.SliceExpr:
		e.expr(t.X)
		e.expr(t.Low)
		e.expr(t.High)
		e.expr(t.Max)
	case *ast.StarExpr:
		if id, ok := unparen(t.X).(*ast.Ident); ok && c.ptrParams[id.Name] {
			e.emit(doOp(act{kind: "RdParam", pname: id.Name + ".*"}))
			return
		}
		e.expr(t.X)
	case *ast.UnaryExpr:
		if t.Op == token.ARROW {
			fi.abort(t.Pos(), "channel receive")
		}
		if t.Op == token.AND {
			if base, _ := rootOf(t.X); base != nil && c.tracked(base.Name) {
				fi.abort(t.Pos(), "address-of expression rooted at %s (aliasing)", base.Name)
			}
		}
		e.expr(t.X)
	case *ast.BinaryExpr:
		if t.Op == token.EQL || t.Op == token.NEQ {
			for _, pr := range [][2]ast.Expr{{t.X, t.Y}, {t.Y, t.X}} {
				if id, ok := unparen(pr[0]).(*ast.Ident); ok && isNilIdent(pr[1]) &&
					(c.ptrParams[id.Name] || c.others[id.Name]) {
					return // comparing the pointer itself, not the pointee
				}
			}
		}
		e.expr(t.X)
		e.expr(t.Y)
	case *ast.KeyValueExpr:
		e.expr(t.Key)
		e.expr(t.Value)
	case *ast.CompositeLit:
		for _, el := range t.Elts {
			if kv, ok := el.(*ast.KeyValueExpr); ok {
				if _, isId := kv.Key.(*ast.Ident); !isId {
					e.expr(kv.Key)
				}
				e.expr(kv.Value)
				continue
			}
			e.expr(el)
		}
	case *ast.TypeAssertExpr:
		e.expr(t.X)
	case *ast.CallExpr:
		e.call(t)
	case *ast.FuncLit:
		fi.abort(t.Pos(), "function literal")
	case *ast.ArrayType, *ast.MapType, *ast.ChanType, *ast.FuncType, *ast.InterfaceType, *ast.StructType, *ast.Ellipsis:
		return // type expression
	default:
		fi.abort(x.Pos(), "expression %T", x)
	}
}

// lockCall recognises recv.mu.Lock() and friends.
func (e *ev) lockCall(call *ast.CallExpr) (act, bool) {
	c, fi := e.c, e.c.fi
	s, ok := call.Fun.(*ast.SelectorExpr)
	if !ok {
		return act{}, false
	}
	in, ok := s.X.(*ast.SelectorExpr)
	if !ok {
		return act{}, false
	}
	id, ok := in.X.(*ast.Ident)
	if !ok {
		return act{}, false
	}
	if c.others[id.Name] {
		fi.abort(call.Pos(), "reference to field or lock %s.%s of a different object", id.Name, in.Sel.Name)
	}
	if c.recv == "" || id.Name != c.recv || in.Sel.Name != c.cls.lockField {
		return act{}, false
	}
	if len(call.Args) != 0 {
		fi.abort(call.Pos(), "arguments in a mutex call")
	}
	l := c.cls.lockID
	switch s.Sel.Name {
	case "Lock":
		return act{kind: "Acq", id: l, mode: "W"}, true
	case "Unlock":
		return act{kind: "Rel", id: l, mode: "W"}, true
	case "RLock":
		if c.cls.lockKind == "RWMutex" {
			return act{kind: "Acq", id: l, mode: "R"}, true
		}
	case "RUnlock":
		if c.cls.lockKind == "RWMutex" {
			return act{kind: "Rel", id: l, mode: "R"}, true
		}
	}
	fi.abort(call.Pos(), "mutex operation %s on sync.%s", s.Sel.Name, c.cls.lockKind)
	return act{}, false
}

func (e *ev) isChan(x ast.Expr) bool {
	id, ok := unparen(x).(*ast.Ident)
	return ok && e.c.chanName != "" && id.Name == e.c.chanName
}

func (e *ev) call(call *ast.CallExpr) {
	c, fi := e.c, e.c.fi
	if a, ok := e.lockCall(call); ok {
		e.emit(doOp(a))
		return
	}
	if id, ok := call.Fun.(*ast.Ident); ok && !c.tracked(id.Name) && fi.funcs[id.Name] == nil {
		switch id.Name {
		case "close":
			if len(call.Args) == 1 && e.isChan(call.Args[0]) {
				e.emit(doOp(act{kind: "Close"}))
				return
			}
		case "delete", "copy":
			if len(call.Args) == 2 {
				e.mutatingBuiltin(call)
				return
			}
		case "make", "new":
			if len(call.Args) > 0 {
				e.exprs(call.Args[1:])
			}
			return
		}
	}
	if s, ok := call.Fun.(*ast.SelectorExpr); ok {
		if id, ok := s.X.(*ast.Ident); ok && c.recv != "" && id.Name == c.recv {
			if _, isField := c.cls.fields[s.Sel.Name]; !isField && s.Sel.Name != c.cls.lockField {
				callee := fi.methods[c.cls.name][s.Sel.Name]
				if callee == nil {
					fi.abort(call.Pos(), "call of unknown member %s.%s", c.cls.name, s.Sel.Name)
				}
				e.args(call)
				e.inline(call, callee)
				return
			}
		}
	}
	switch f := call.Fun.(type) {
	case *ast.Ident:
		if c.tracked(f.Name) {
			fi.abort(f.Pos(), "call through tracked identifier %s", f.Name)
		}
	case *ast.SelectorExpr:
		if id, ok := f.X.(*ast.Ident); ok && c.ptrParams[id.Name] {
			fi.abort(f.Pos(), "method call on pointer parameter %s", id.Name)
		}
		e.expr(f) // reads in the receiver expression of the call
	case *ast.FuncLit:
		fi.abort(f.Pos(), "function literal")
	default:
		e.expr(call.Fun) // conversions such as (*T)(x), []byte(x)
	}
	e.args(call)
}

// args evaluates call arguments; a bare tracked pointer parameter becomes RdParam p.* (or WrParam p.* if the
// callee may write through it).
func (e *ev) args(call *ast.CallExpr) {
	c, fi := e.c, e.c.fi
	for i, a := range call.Args {
		if id, ok := unparen(a).(*ast.Ident); ok && c.ptrParams[id.Name] {
			kind := "RdParam"
			if fi.calleeWrites(call, i, map[string]bool{}) {
				kind = "WrParam"
			}
			e.emit(doOp(act{kind: kind, pname: id.Name + ".*"}))
			continue
		}
		e.expr(a)
	}
}

// mutatingBuiltin handles delete(dst, k) and copy(dst, src).
func (e *ev) mutatingBuiltin(call *ast.CallExpr) {
	dst := unparen(call.Args[0])
	base, _ := rootOf(dst)
	if base == nil || !e.c.tracked(base.Name) {
		e.expr(call.Args[0])
		e.expr(call.Args[1])
		return
	}
	var w *mop
	if _, exact := e.recvField(dst); exact {
		w = e.lhs(dst)
	} else if _, isSel := dst.(*ast.SelectorExpr); isSel {
		w = e.lhs(dst)
	} else {
		// delete(recv.f[k], j): the inner lookup is a read of f, the deletion a write of f
		e.expr(dst)
		w = e.lhsTarget(dst)
	}
	e.expr(call.Args[1])
	if w != nil {
		e.emit(*w)
	}
}

// lhsTarget returns the write op for an assignment target without emitting any reads.
func (e *ev) lhsTarget(x ast.Expr) *mop {
	sub := &ev{c: e.c, cur: unit()}
	return sub.lhs(x)
}

// lhs emits the reads needed to evaluate the assignment target x (index expressions, inner lookups) and returns the
// write micro-operation, or nil if the target is a local variable.
func (e *ev) lhs(x ast.Expr) *mop {
	c, fi := e.c, e.c.fi
	x = unparen(x)
	if id, ok := x.(*ast.Ident); ok {
		if c.tracked(id.Name) {
			fi.abort(id.Pos(), "assignment to tracked identifier %s", id.Name)
		}
		return nil
	}
	base, sel := rootOf(x)
	if base == nil {
		e.lhsChildren(x, nil)
		return nil
	}
	switch {
	case c.recv != "" && base.Name == c.recv:
		if sel == nil {
			fi.abort(x.Pos(), "assignment through the bare receiver")
		}
		f, ok := c.cls.fields[sel.Sel.Name]
		if !ok {
			fi.abort(x.Pos(), "assignment target %s.%s", c.cls.name, sel.Sel.Name)
		}
		if x != ast.Expr(sel) {
			e.lhsChildren(x, sel)
		}
		m := doOp(act{kind: "Wr", id: f})
		return &m
	case c.ptrParams[base.Name]:
		pn := base.Name + ".*"
		if sel != nil {
			pn = base.Name + "." + sel.Sel.Name
		}
		if sel != nil && x != ast.Expr(sel) {
			e.lhsChildren(x, sel)
		} else if sel == nil {
			if st, ok := x.(*ast.StarExpr); !ok || unparen(st.X) != ast.Expr(base) {
				fi.abort(x.Pos(), "assignment target rooted at pointer parameter %s", base.Name)
			}
		}
		m := doOp(act{kind: "WrParam", pname: pn})
		return &m
	case c.others[base.Name]:
		fi.abort(x.Pos(), "assignment to a different object %s", base.Name)
	case base.Name == c.chanName && c.chanName != "":
		fi.abort(x.Pos(), "assignment through the channel parameter")
	}
	e.lhsChildren(x, nil)
	return nil
}

func (e *ev) lhsChildren(x ast.Expr, exact ast.Expr) {
	var inner, idx ast.Expr
	switch t := x.(type) {
	case *ast.IndexExpr:
		inner, idx = t.X, t.Index
	case *ast.SliceExpr:
		inner = t.X
		defer func() { e.expr(t.Low); e.expr(t.High); e.expr(t.Max) }()
	case *ast.SelectorExpr:
		inner = t.X
	case *ast.StarExpr:
		inner = t.X
	default:
		e.c.fi.abort(x.Pos(), "assignment target %T", x)
	}
	if exact == nil || unparen(inner) != exact {
		e.expr(inner)
	}
	e.expr(idx)
}

func (e *ev) assign(s *ast.AssignStmt) {
	c, fi := e.c, e.c.fi
	if s.Tok == token.DEFINE {
		for _, l := range s.Lhs {
			id, ok := l.(*ast.Ident)
			if !ok {
				fi.abort(l.Pos(), "non-identifier in short variable declaration")
			}
			c.checkDecl(id)
		}
		e.exprs(s.Rhs)
		return
	}
	var ws []*mop
	for _, l := range s.Lhs {
		if s.Tok != token.ASSIGN {
			e.expr(l) // compound assignment reads the target first
		}
		ws = append(ws, e.lhs(l))
	}
	e.exprs(s.Rhs)
	for _, w := range ws {
		if w != nil {
			e.emit(*w)
		}
	}
}

func (e *ev) decl(s *ast.DeclStmt) {
	gd, ok := s.Decl.(*ast.GenDecl)
	if !ok {
		e.c.fi.abort(s.Pos(), "declaration statement")
	}
	if gd.Tok != token.VAR {
		return // const / type: no run-time effect
	}
	for _, sp := range gd.Specs {
		vs := sp.(*ast.ValueSpec)
		for _, n := range vs.Names {
			e.c.checkDecl(n)
		}
		e.exprs(vs.Values)
	}
}

func (e *ev) deferStmt(s *ast.DeferStmt) {
	c, fi := e.c, e.c.fi
	call := s.Call
	if a, ok := e.lockCall(call); ok {
		e.emit(deferOp(a))
		return
	}
	if id, ok := call.Fun.(*ast.Ident); ok && id.Name == "close" && len(call.Args) == 1 && e.isChan(call.Args[0]) {
		e.emit(deferOp(act{kind: "Close"}))
		return
	}
	fl, ok := call.Fun.(*ast.FuncLit)
	if !ok {
		fi.abort(s.Pos(), "deferred call (only mutex release, close of the channel parameter and a one-assignment closure are understood)")
	}
	if len(call.Args) != 0 || (fl.Type.Params != nil && len(fl.Type.Params.List) != 0) {
		fi.abort(s.Pos(), "deferred closure with parameters")
	}
	if len(fl.Body.List) != 1 {
		fi.abort(fl.Body.Pos(), "deferred closure with %d statements (exactly one assignment supported)", len(fl.Body.List))
	}
	as, ok := fl.Body.List[0].(*ast.AssignStmt)
	if !ok || as.Tok != token.ASSIGN || len(as.Lhs) != 1 || len(as.Rhs) != 1 {
		fi.abort(fl.Body.List[0].Pos(), "statement in deferred closure (only a simple assignment supported)")
	}
	sub := c.newEv()
	w := sub.lhs(as.Lhs[0])
	sub.expr(as.Rhs[0])
	if len(sub.cur) != 1 || len(sub.cur[0]) != 0 {
		fi.abort(as.Pos(), "deferred assignment that reads shared state")
	}
	if w == nil {
		fi.abort(as.Pos(), "deferred assignment to a local variable")
	}
	e.emit(deferOp(w.a))
}

// inline splices in the paths of another method of the same class.
func (e *ev) inline(call *ast.CallExpr, callee *ast.FuncDecl) {
	c, fi := e.c, e.c.fi
	cc := fi.newCtx(callee)
	if cc.hasTrackedParams() {
		fi.abort(call.Pos(), "call of method %s which has channel/options/object parameters (cannot inline)", callee.Name.Name)
	}
	r := fi.analyze(callee)
	if r.err != nil {
		fi.abort(call.Pos(), "call of unsupported method %s (%s)", callee.Name.Name, r.err.what)
	}
	var stripped pset
	for _, p := range r.paths {
		for _, m := range p {
			if m.k == kDefer {
				fi.abort(call.Pos(), "call of method %s whose body uses defer (cannot inline)", callee.Name.Name)
			}
		}
		stripped = append(stripped, p[:len(p)-1])
	}
	stripped = dedup(stripped)
	e.cur = c.seqAt(call.Pos(), e.cur, stripped)
	e.ss = append(e.ss, pathsToStm(stripped))
}
