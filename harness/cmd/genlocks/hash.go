package main

import (
	"bytes"
	"crypto/sha256"
	"encoding/hex"
	"fmt"
	"go/ast"
	"go/parser"
	"go/printer"
	"go/scanner"
	"go/token"
	"strings"
)

// Normal form of a lookup method body.  A fresh parse is used because the tree is rewritten in place.

type lookupHash struct {
	name string
	hash string
	text string
}

func hashLookups(fi *fileInfo, names map[string]bool) []lookupHash {
	fset := token.NewFileSet()
	f, err := parser.ParseFile(fset, fi.name, nil, parser.SkipObjectResolution)
	if err != nil {
		fmt.Fprintf(errOut, "genlocks: %v\n", err)
		exit(2)
	}
	var out []lookupHash
	for _, d := range f.Decls {
		fn, ok := d.(*ast.FuncDecl)
		if !ok || fn.Recv == nil || fn.Body == nil {
			continue
		}
		cls := fi.classes[recvTypeName(fn)]
		if cls == nil {
			continue
		}
		full := cls.name + "." + fn.Name.Name
		if !names[full] {
			continue
		}
		text := normalise(fset, fi, cls, fn)
		sum := sha256.Sum256([]byte(text))
		out = append(out, lookupHash{name: full, hash: hex.EncodeToString(sum[:]), text: text})
	}
	return out
}

type normaliser struct {
	cls          *class
	recv, ch, lo string
	rename       map[string]string
}

func mentions(n ast.Node, names ...string) bool {
	found := false
	ast.Inspect(n, func(x ast.Node) bool {
		if id, ok := x.(*ast.Ident); ok {
			for _, nm := range names {
				if nm != "" && id.Name == nm {
					found = true
				}
			}
		}
		return true
	})
	return found
}

func normalise(fset *token.FileSet, fi *fileInfo, cls *class, fn *ast.FuncDecl) string {
	c := fi.newCtx(fn) // parameter classification only (positions of a possible abort come from fi's parse; same file)
	nz := &normaliser{cls: cls, recv: c.recv, ch: c.chanName, rename: map[string]string{}}
	for n := range c.ptrParams {
		nz.lo = n
	}
	body := fn.Body
	body.List = nz.dropPrologue(body.List)
	nz.dropDeadCounters(body)
	body = nz.rewrite(body).(*ast.BlockStmt)
	nz.alpha(body)
	var buf bytes.Buffer
	cfg := printer.Config{Mode: printer.UseSpaces, Tabwidth: 4}
	if err := cfg.Fprint(&buf, fset, body); err != nil {
		fmt.Fprintf(errOut, "genlocks: printing normal form of %s: %v\n", fn.Name.Name, err)
		exit(2)
	}
	return tokenNormal(buf.String())
}

// tokenNormal re-scans the printed body and joins the tokens canonically, so that the normal form does not depend on
// layout (line breaks, blank lines, trailing commas of multi-line literals, automatic semicolons before a brace).
func tokenNormal(src string) string {
	fset := token.NewFileSet()
	file := fset.AddFile("", fset.Base(), len(src))
	var sc scanner.Scanner
	sc.Init(file, []byte(src), nil, 0)
	var toks []string
	for {
		_, tok, lit := sc.Scan()
		if tok == token.EOF {
			break
		}
		t := tok.String()
		if tok == token.SEMICOLON {
			t = ";"
		} else if lit != "" {
			t = lit
		}
		if n := len(toks); n > 0 {
			closing := tok == token.RBRACE || tok == token.RPAREN || tok == token.RBRACK
			if (closing && toks[n-1] == ",") || (tok == token.RBRACE && toks[n-1] == ";") {
				toks = toks[:n-1]
			}
		}
		toks = append(toks, t)
	}
	for len(toks) > 0 && toks[len(toks)-1] == ";" {
		toks = toks[:len(toks)-1]
	}
	var sb strings.Builder
	for i, t := range toks {
		sb.WriteString(t)
		if i == len(toks)-1 {
			break
		}
		if t == ";" || t == "{" {
			sb.WriteByte('\n')
		} else {
			sb.WriteByte(' ')
		}
	}
	return sb.String()
}

func (nz *normaliser) isNilCheck(s ast.Stmt) bool {
	is, ok := s.(*ast.IfStmt)
	if !ok || is.Init != nil {
		return false
	}
	b, ok := unparen(is.Cond).(*ast.BinaryExpr)
	if !ok || b.Op != token.EQL {
		return false
	}
	x, okx := b.X.(*ast.Ident)
	y, oky := b.Y.(*ast.Ident)
	return okx && oky && nz.ch != "" && x.Name == nz.ch && y.Name == "nil"
}

func (nz *normaliser) isAcquire(s ast.Stmt) bool {
	es, ok := s.(*ast.ExprStmt)
	if !ok {
		return false
	}
	call, ok := es.X.(*ast.CallExpr)
	if !ok {
		return false
	}
	sel, ok := call.Fun.(*ast.SelectorExpr)
	if !ok || (sel.Sel.Name != "Lock" && sel.Sel.Name != "RLock") {
		return false
	}
	in, ok := sel.X.(*ast.SelectorExpr)
	if !ok || in.Sel.Name != nz.cls.lockField {
		return false
	}
	id, ok := in.X.(*ast.Ident)
	return ok && nz.recv != "" && id.Name == nz.recv
}

// dropPrologue removes the bucket-key computation: the statements between the nil-channel check and the first lock
// acquisition, provided each of them is a short variable declaration not mentioning receiver, channel or options.
func (nz *normaliser) dropPrologue(list []ast.Stmt) []ast.Stmt {
	i, j := -1, -1
	for k, s := range list {
		if i < 0 && nz.isNilCheck(s) {
			i = k
		}
		if j < 0 && nz.isAcquire(s) {
			j = k
		}
	}
	if i < 0 || j < 0 || j <= i+1 {
		return list
	}
	for _, s := range list[i+1 : j] {
		as, ok := s.(*ast.AssignStmt)
		if !ok || as.Tok != token.DEFINE || mentions(s, nz.recv, nz.ch, nz.lo) {
			return list
		}
	}
	out := append([]ast.Stmt{}, list[:i+1]...)
	return append(out, list[j:]...)
}

func pureExpr(x ast.Expr) bool {
	pure := true
	ast.Inspect(x, func(n ast.Node) bool {
		switch n.(type) {
		case *ast.CallExpr, *ast.FuncLit, *ast.UnaryExpr, *ast.IndexExpr, *ast.StarExpr, *ast.SelectorExpr:
			pure = false
		}
		return true
	})
	return pure
}

// dropDeadCounters removes statements that only declare/assign/increment a local that is never read.
func (nz *normaliser) dropDeadCounters(body *ast.BlockStmt) {
	declared := map[string]bool{}
	writes := map[*ast.Ident]bool{} // identifier occurrences in write-only position
	bad := map[string]bool{}
	ast.Inspect(body, func(n ast.Node) bool {
		switch s := n.(type) {
		case *ast.AssignStmt:
			if len(s.Lhs) == 1 && len(s.Rhs) == 1 && (s.Tok == token.DEFINE || s.Tok == token.ASSIGN) {
				if id, ok := s.Lhs[0].(*ast.Ident); ok && pureExpr(s.Rhs[0]) {
					writes[id] = true
					if s.Tok == token.DEFINE {
						declared[id.Name] = true
					}
				}
			}
		case *ast.IncDecStmt:
			if id, ok := s.X.(*ast.Ident); ok {
				writes[id] = true
			}
		}
		return true
	})
	ast.Inspect(body, func(n ast.Node) bool {
		if se, ok := n.(*ast.SelectorExpr); ok {
			ast.Inspect(se.X, func(m ast.Node) bool {
				if id, ok := m.(*ast.Ident); ok && !writes[id] {
					bad[id.Name] = true
				}
				return true
			})
			return false
		}
		if id, ok := n.(*ast.Ident); ok && !writes[id] {
			bad[id.Name] = true
		}
		return true
	})
	dead := func(s ast.Stmt) bool {
		switch s := s.(type) {
		case *ast.AssignStmt:
			if id, ok := s.Lhs[0].(*ast.Ident); ok && len(s.Lhs) == 1 && writes[id] {
				return declared[id.Name] && !bad[id.Name]
			}
		case *ast.IncDecStmt:
			if id, ok := s.X.(*ast.Ident); ok {
				return declared[id.Name] && !bad[id.Name]
			}
		}
		return false
	}
	ast.Inspect(body, func(n ast.Node) bool {
		var lp *[]ast.Stmt
		switch b := n.(type) {
		case *ast.BlockStmt:
			lp = &b.List
		case *ast.CaseClause:
			lp = &b.Body
		}
		if lp != nil {
			var keep []ast.Stmt
			for _, s := range *lp {
				if !dead(s) {
					keep = append(keep, s)
				}
			}
			*lp = keep
		}
		return true
	})
}

func ident(name string) *ast.Ident { return &ast.Ident{Name: name} }

// rewrite replaces bucket expressions, the send projection, the predicate argument and the parameter names.
func (nz *normaliser) rewrite(n ast.Node) ast.Node {
	var rw func(x ast.Expr) ast.Expr
	isBucketBase := func(x ast.Expr) bool {
		s, ok := x.(*ast.SelectorExpr)
		if !ok {
			return false
		}
		id, ok := s.X.(*ast.Ident)
		if !ok || nz.recv == "" || id.Name != nz.recv {
			return false
		}
		_, isField := nz.cls.fields[s.Sel.Name]
		return isField
	}
	rw = func(x ast.Expr) ast.Expr {
		switch t := x.(type) {
		case nil:
			return nil
		case *ast.Ident:
			switch {
			case nz.recv != "" && t.Name == nz.recv:
				return ident("RECV")
			case nz.ch != "" && t.Name == nz.ch:
				return ident("CH")
			case nz.lo != "" && t.Name == nz.lo:
				return ident("LO")
			}
			return t
		case *ast.SelectorExpr:
			if isBucketBase(t) {
				return ident("BUCKET")
			}
			t.X = rw(t.X)
			return t
		case *ast.IndexExpr:
			if isBucketBase(t.X) {
				return ident("BUCKET")
			}
			t.X, t.Index = rw(t.X), rw(t.Index)
			return t
		case *ast.CallExpr:
			if id, ok := t.Fun.(*ast.Ident); ok && (id.Name == "newChecker" || id.Name == "executeFilter") && len(t.Args) >= 2 {
				if _, isId := t.Args[1].(*ast.Ident); isId {
					t.Args[1] = ident("QP")
					for i := range t.Args {
						if i != 1 {
							t.Args[i] = rw(t.Args[i])
						}
					}
					return t
				}
			}
			t.Fun = rw(t.Fun)
			for i := range t.Args {
				t.Args[i] = rw(t.Args[i])
			}
			return t
		case *ast.ParenExpr:
			t.X = rw(t.X)
			return t
		case *ast.StarExpr:
			t.X = rw(t.X)
			return t
		case *ast.UnaryExpr:
			t.X = rw(t.X)
			return t
		case *ast.BinaryExpr:
			t.X, t.Y = rw(t.X), rw(t.Y)
			return t
		case *ast.SliceExpr:
			t.X, t.Low, t.High, t.Max = rw(t.X), rw(t.Low), rw(t.High), rw(t.Max)
			return t
		case *ast.TypeAssertExpr:
			t.X = rw(t.X)
			return t
		case *ast.KeyValueExpr:
			if _, isId := t.Key.(*ast.Ident); !isId {
				t.Key = rw(t.Key)
			}
			t.Value = rw(t.Value)
			return t
		case *ast.CompositeLit:
			for i := range t.Elts {
				t.Elts[i] = rw(t.Elts[i])
			}
			return t
		case *ast.FuncLit:
			nz.rewriteStmt(t.Body, rw)
			return t
		}
		return x
	}
	nz.rewriteStmt(n.(ast.Stmt), rw)
	return n
}

func (nz *normaliser) projection(x ast.Expr) (ast.Expr, bool) {
	if call, ok := x.(*ast.CallExpr); ok && len(call.Args) == 0 {
		if s, ok := call.Fun.(*ast.SelectorExpr); ok {
			switch s.Sel.Name {
			case "Object", "Subject", "Predicate":
				if ix, ok := s.X.(*ast.IndexExpr); ok {
					return ix, true
				}
			}
		}
		return nil, false
	}
	if ix, ok := x.(*ast.IndexExpr); ok {
		return ix, true
	}
	return nil, false
}

func (nz *normaliser) rewriteStmt(s ast.Stmt, rw func(ast.Expr) ast.Expr) {
	list := func(l []ast.Stmt) {
		for _, x := range l {
			nz.rewriteStmt(x, rw)
		}
	}
	exprs := func(l []ast.Expr) {
		for i := range l {
			l[i] = rw(l[i])
		}
	}
	switch t := s.(type) {
	case nil:
	case *ast.BlockStmt:
		if t != nil {
			list(t.List)
		}
	case *ast.ExprStmt:
		t.X = rw(t.X)
	case *ast.AssignStmt:
		exprs(t.Lhs)
		exprs(t.Rhs)
	case *ast.IncDecStmt:
		t.X = rw(t.X)
	case *ast.SendStmt:
		if ix, ok := nz.projection(t.Value); ok && nz.ch != "" && mentions(t.Chan, nz.ch) {
			t.Value = &ast.CallExpr{Fun: ident("PROJ"), Args: []ast.Expr{rw(ix)}}
		} else {
			t.Value = rw(t.Value)
		}
		t.Chan = rw(t.Chan)
	case *ast.DeferStmt:
		t.Call = rw(t.Call).(*ast.CallExpr)
	case *ast.GoStmt:
		t.Call = rw(t.Call).(*ast.CallExpr)
	case *ast.ReturnStmt:
		exprs(t.Results)
	case *ast.IfStmt:
		nz.rewriteStmt(t.Init, rw)
		t.Cond = rw(t.Cond)
		nz.rewriteStmt(t.Body, rw)
		nz.rewriteStmt(t.Else, rw)
	case *ast.ForStmt:
		nz.rewriteStmt(t.Init, rw)
		t.Cond = rw(t.Cond)
		nz.rewriteStmt(t.Post, rw)
		nz.rewriteStmt(t.Body, rw)
	case *ast.RangeStmt:
		t.Key, t.Value, t.X = rw(t.Key), rw(t.Value), rw(t.X)
		nz.rewriteStmt(t.Body, rw)
	case *ast.SwitchStmt:
		nz.rewriteStmt(t.Init, rw)
		t.Tag = rw(t.Tag)
		nz.rewriteStmt(t.Body, rw)
	case *ast.TypeSwitchStmt:
		nz.rewriteStmt(t.Init, rw)
		nz.rewriteStmt(t.Assign, rw)
		nz.rewriteStmt(t.Body, rw)
	case *ast.CaseClause:
		exprs(t.List)
		list(t.Body)
	case *ast.LabeledStmt:
		nz.rewriteStmt(t.Stmt, rw)
	case *ast.DeclStmt:
		if gd, ok := t.Decl.(*ast.GenDecl); ok {
			for _, sp := range gd.Specs {
				if vs, ok := sp.(*ast.ValueSpec); ok {
					exprs(vs.Values)
				}
			}
		}
	}
}

// alpha renames the locals declared in the body to v1, v2, ... in order of first occurrence.
func (nz *normaliser) alpha(body *ast.BlockStmt) {
	declared := map[string]bool{}
	decl := func(x ast.Expr) {
		if id, ok := x.(*ast.Ident); ok && id.Name != "_" {
			declared[id.Name] = true
		}
	}
	ast.Inspect(body, func(n ast.Node) bool {
		switch s := n.(type) {
		case *ast.AssignStmt:
			if s.Tok == token.DEFINE {
				for _, l := range s.Lhs {
					decl(l)
				}
			}
		case *ast.RangeStmt:
			if s.Tok == token.DEFINE {
				decl(s.Key)
				decl(s.Value)
			}
		case *ast.ValueSpec:
			for _, n := range s.Names {
				decl(n)
			}
		}
		return true
	})
	for _, reserved := range []string{"RECV", "CH", "LO", "BUCKET", "QP", "PROJ"} {
		delete(declared, reserved)
	}
	var visit func(n ast.Node) bool
	visit = func(n ast.Node) bool {
		switch t := n.(type) {
		case *ast.SelectorExpr:
			ast.Inspect(t.X, visit)
			return false
		case *ast.KeyValueExpr:
			if _, isId := t.Key.(*ast.Ident); !isId {
				ast.Inspect(t.Key, visit)
			}
			ast.Inspect(t.Value, visit)
			return false
		case *ast.Ident:
			if declared[t.Name] {
				nn, ok := nz.rename[t.Name]
				if !ok {
					nn = fmt.Sprintf("v%d", len(nz.rename)+1)
					nz.rename[t.Name] = nn
				}
				t.Name = nn
			}
		}
		return true
	}
	ast.Inspect(body, visit)
}
