package main

import (
	"strconv"
	"strings"
)

// act is one micro-operation (Coq type act).
type act struct {
	kind  string // Acq Rel Rd Wr RdParam WrParam Send Close ChanNil
	id    int    // lock id (Acq/Rel) or field id (Rd/Wr)
	mode  string // R | W (Acq/Rel)
	b     bool   // ChanNil
	pname string // "lo.X" (RdParam/WrParam); ids are assigned at emission time
}

const (
	kDo = iota
	kDefer
	kReturn
)

// mop is Coq mop: Do a | Defer a | Return.
type mop struct {
	k int
	a act
}

type path []mop
type pset []path

func (a act) key() string {
	switch a.kind {
	case "Acq", "Rel":
		return a.kind + " " + strconv.Itoa(a.id) + " " + a.mode
	case "Rd", "Wr":
		return a.kind + " " + strconv.Itoa(a.id)
	case "RdParam", "WrParam":
		return a.kind + " " + a.pname
	case "ChanNil":
		return a.kind + " " + strconv.FormatBool(a.b)
	}
	return a.kind
}

func (m mop) key() string {
	switch m.k {
	case kDo:
		return "Do(" + m.a.key() + ")"
	case kDefer:
		return "Defer(" + m.a.key() + ")"
	}
	return "Return"
}

func (p path) key() string {
	var sb strings.Builder
	for _, m := range p {
		sb.WriteString(m.key())
		sb.WriteByte(';')
	}
	return sb.String()
}

func unit() pset { return pset{path{}} }

func single(ms ...mop) pset { return pset{path(ms)} }

func dedup(ps pset) pset {
	seen := make(map[string]bool, len(ps))
	out := make(pset, 0, len(ps))
	for _, p := range ps {
		k := p.key()
		if seen[k] {
			continue
		}
		seen[k] = true
		out = append(out, p)
	}
	return out
}

// seq is the sequential composition: every path of a followed by every path of b.
func seq(a, b pset) pset {
	if len(b) == 1 && len(b[0]) == 0 {
		return a
	}
	if len(a) == 1 && len(a[0]) == 0 {
		return b
	}
	out := make(pset, 0, len(a)*len(b))
	for _, x := range a {
		for _, y := range b {
			p := make(path, 0, len(x)+len(y))
			p = append(p, x...)
			p = append(p, y...)
			out = append(out, p)
		}
	}
	return dedup(out)
}

func union(a, b pset) pset {
	out := make(pset, 0, len(a)+len(b))
	out = append(out, a...)
	out = append(out, b...)
	return dedup(out)
}

func doOp(a act) mop    { return mop{k: kDo, a: a} }
func deferOp(a act) mop { return mop{k: kDefer, a: a} }
func retOp() mop        { return mop{k: kReturn} }
