package main

import (
	"go/ast"
	"go/token"
)

// analyze returns the complete paths (each ending in Return) and the structured body of a method; memoised.
func (fi *fileInfo) analyze(fn *ast.FuncDecl) (res *mresult) {
	if r := fi.results[fn]; r != nil {
		if r.busy {
			fi.abort(fn.Pos(), "recursive method %s", fn.Name.Name)
		}
		return r
	}
	r := &mresult{busy: true}
	fi.results[fn] = r
	defer func() {
		r.busy = false
		r.done = true
		if x := recover(); x != nil {
			ae, ok := x.(*abortErr)
			if !ok || !fi.soft {
				panic(x)
			}
			r.err = ae
			res = r
		}
	}()
	if fn.Body == nil {
		fi.abort(fn.Pos(), "method without body")
	}
	c := fi.newCtx(fn)
	ft, term, body := c.block(fn.Body.List)
	r.paths = union(term, c.seqAt(fn.Body.Rbrace, ft, single(retOp())))
	if len(ft) > 0 {
		body = seqS(body, returnS()) // the Go body can fall off the end
	}
	r.body = body
	return r
}

func (c *mctx) seqAt(pos token.Pos, a, b pset) pset {
	if len(a)*len(b) > maxPaths {
		c.fi.abort(pos, "path explosion (more than %d paths)", maxPaths)
	}
	return seq(a, b)
}

// block returns the fall-through paths, the paths terminated by a return, and the structured form.
func (c *mctx) block(stmts []ast.Stmt) (ft, term pset, body *stm) {
	ft = unit()
	var parts []*stm
	for _, s := range stmts {
		f, t, b := c.stmt(s)
		term = union(term, c.seqAt(s.Pos(), ft, t))
		ft = c.seqAt(s.Pos(), ft, f)
		parts = append(parts, b)
	}
	return ft, term, seqS(parts...)
}

func (c *mctx) stmt(s ast.Stmt) (ft, term pset, body *stm) {
	fi := c.fi
	switch s := s.(type) {
	case *ast.EmptyStmt:
		return unit(), nil, skipS()
	case *ast.BlockStmt:
		return c.block(s.List)
	case *ast.ExprStmt:
		e := c.newEv()
		e.expr(s.X)
		return e.cur, nil, e.stm()
	case *ast.AssignStmt:
		e := c.newEv()
		e.assign(s)
		return e.cur, nil, e.stm()
	case *ast.IncDecStmt:
		e := c.newEv()
		e.expr(s.X)
		if w := e.lhs(s.X); w != nil {
			e.emit(*w)
		}
		return e.cur, nil, e.stm()
	case *ast.DeclStmt:
		e := c.newEv()
		e.decl(s)
		return e.cur, nil, e.stm()
	case *ast.SendStmt:
		id, ok := unparen(s.Chan).(*ast.Ident)
		if !ok || c.chanName == "" || id.Name != c.chanName {
			fi.abort(s.Pos(), "send on something that is not the channel parameter")
		}
		e := c.newEv()
		e.expr(s.Value)
		e.emit(doOp(act{kind: "Send"}))
		return e.cur, nil, e.stm()
	case *ast.DeferStmt:
		e := c.newEv()
		e.deferStmt(s)
		return e.cur, nil, e.stm()
	case *ast.ReturnStmt:
		e := c.newEv()
		for _, r := range s.Results {
			e.expr(r)
		}
		e.emit(retOp())
		return nil, e.cur, e.stm()
	case *ast.IfStmt:
		return c.ifStmt(s)
	case *ast.ForStmt:
		return c.forStmt(s)
	case *ast.RangeStmt:
		return c.rangeStmt(s)
	case *ast.SwitchStmt:
		return c.switchStmt(s)
	case *ast.TypeSwitchStmt:
		return c.typeSwitchStmt(s)
	case *ast.BranchStmt:
		fi.abort(s.Pos(), "%s statement", s.Tok)
	case *ast.GoStmt:
		fi.abort(s.Pos(), "go statement")
	case *ast.SelectStmt:
		fi.abort(s.Pos(), "select statement")
	case *ast.LabeledStmt:
		fi.abort(s.Pos(), "labeled statement")
	}
	fi.abort(s.Pos(), "statement %T", s)
	return nil, nil, nil
}

// simple runs an init/post statement, which must not return.
func (c *mctx) simple(s ast.Stmt) (pset, *stm) {
	if s == nil {
		return unit(), skipS()
	}
	f, t, b := c.stmt(s)
	if len(t) != 0 {
		c.fi.abort(s.Pos(), "returning init/post statement")
	}
	return f, b
}

// chanNilCond recognises `ch == nil` / `ch != nil` on the channel parameter.
func (c *mctx) chanNilCond(cond ast.Expr) (matched bool, nilWhenTrue bool) {
	b, ok := unparen(cond).(*ast.BinaryExpr)
	if !ok || c.chanName == "" || (b.Op != token.EQL && b.Op != token.NEQ) {
		return false, false
	}
	x, okx := unparen(b.X).(*ast.Ident)
	y, oky := unparen(b.Y).(*ast.Ident)
	if !okx || !oky {
		return false, false
	}
	if (x.Name == c.chanName && y.Name == "nil") || (y.Name == c.chanName && x.Name == "nil") {
		return true, b.Op == token.EQL
	}
	return false, false
}

func (c *mctx) ifStmt(s *ast.IfStmt) (ft, term pset, body *stm) {
	pre, preS := c.simple(s.Init)
	var thenPre, elsePre pset
	var condS, thenHead, elseHead *stm
	if ok, nilWhenTrue := c.chanNilCond(s.Cond); ok {
		t, f := doOp(act{kind: "ChanNil", b: nilWhenTrue}), doOp(act{kind: "ChanNil", b: !nilWhenTrue})
		thenPre, elsePre = single(t), single(f)
		condS, thenHead, elseHead = skipS(), opS(t), opS(f)
	} else {
		e := c.newEv()
		e.expr(s.Cond)
		thenPre, elsePre = e.cur, e.cur
		condS, thenHead, elseHead = e.stm(), skipS(), skipS()
	}
	tf, tt, tS := c.block(s.Body.List)
	ef, et, eS := unit(), pset(nil), skipS()
	if s.Else != nil {
		ef, et, eS = c.stmt(s.Else)
	}
	p := s.Pos()
	ft = c.seqAt(p, pre, union(c.seqAt(p, thenPre, tf), c.seqAt(p, elsePre, ef)))
	term = c.seqAt(p, pre, union(c.seqAt(p, thenPre, tt), c.seqAt(p, elsePre, et)))
	body = seqS(preS, condS, ifS(seqS(thenHead, tS), seqS(elseHead, eS)))
	return ft, term, body
}

func (c *mctx) mkLoop(pos token.Pos, b *stm) *stm {
	if b.hasDefer() {
		c.fi.abort(pos, "defer inside a loop body (not expressible in the structured form)")
	}
	return loopS(b)
}

func (c *mctx) forStmt(s *ast.ForStmt) (ft, term pset, body *stm) {
	pre, preS := c.simple(s.Init)
	condS := skipS()
	if s.Cond != nil {
		e := c.newEv()
		e.expr(s.Cond)
		pre = c.seqAt(s.Pos(), pre, e.cur)
		condS = e.stm()
	}
	bf, bt, bS := c.block(s.Body.List)
	post, postS := c.simple(s.Post)
	p := s.Pos()
	ft = c.seqAt(p, pre, union(unit(), c.seqAt(p, bf, post)))
	term = c.seqAt(p, pre, bt)
	body = seqS(preS, condS, c.mkLoop(p, seqS(bS, postS)))
	return ft, term, body
}

func (c *mctx) rangeStmt(s *ast.RangeStmt) (ft, term pset, body *stm) {
	for _, kv := range []ast.Expr{s.Key, s.Value} {
		if kv == nil {
			continue
		}
		id, ok := kv.(*ast.Ident)
		if !ok {
			c.fi.abort(kv.Pos(), "range variable that is not an identifier")
		}
		c.checkDecl(id)
	}
	e := c.newEv()
	e.expr(s.X)
	bf, bt, bS := c.block(s.Body.List)
	p := s.Pos()
	ft = c.seqAt(p, e.cur, union(unit(), bf))
	term = c.seqAt(p, e.cur, bt)
	body = seqS(e.stm(), c.mkLoop(p, bS))
	return ft, term, body
}

// clauses: case expressions are evaluated cumulatively, clause by clause; the default clause (or nothing) is taken
// after all of them.  Structured form: c1; SIf b1 (c2; SIf b2 (... default-or-SSkip)).
func (c *mctx) clauses(pos token.Pos, pre pset, body *ast.BlockStmt, exprs bool) (ft, term pset, st *stm) {
	cum := pre
	var def *ast.CaseClause
	type cl struct{ cond, body *stm }
	var cls []cl
	for _, s := range body.List {
		cc := s.(*ast.CaseClause)
		if cc.List == nil {
			def = cc
			continue
		}
		condS := skipS()
		if exprs {
			e := c.newEv()
			for _, x := range cc.List {
				e.expr(x)
			}
			cum = c.seqAt(pos, cum, e.cur)
			condS = e.stm()
		}
		bf, bt, bS := c.block(cc.Body)
		ft = union(ft, c.seqAt(pos, cum, bf))
		term = union(term, c.seqAt(pos, cum, bt))
		cls = append(cls, cl{condS, bS})
	}
	st = skipS()
	if def != nil {
		bf, bt, bS := c.block(def.Body)
		ft = union(ft, c.seqAt(pos, cum, bf))
		term = union(term, c.seqAt(pos, cum, bt))
		st = bS
	} else {
		ft = union(ft, cum)
	}
	for i := len(cls) - 1; i >= 0; i-- {
		st = seqS(cls[i].cond, ifS(cls[i].body, st))
	}
	return ft, term, st
}

func (c *mctx) switchStmt(s *ast.SwitchStmt) (ft, term pset, body *stm) {
	pre, preS := c.simple(s.Init)
	tagS := skipS()
	if s.Tag != nil {
		e := c.newEv()
		e.expr(s.Tag)
		pre = c.seqAt(s.Pos(), pre, e.cur)
		tagS = e.stm()
	}
	ft, term, st := c.clauses(s.Pos(), pre, s.Body, true)
	return ft, term, seqS(preS, tagS, st)
}

func (c *mctx) typeSwitchStmt(s *ast.TypeSwitchStmt) (ft, term pset, body *stm) {
	pre, preS := c.simple(s.Init)
	var x ast.Expr
	switch a := s.Assign.(type) {
	case *ast.ExprStmt:
		x = a.X
	case *ast.AssignStmt:
		if len(a.Lhs) == 1 && len(a.Rhs) == 1 {
			if id, ok := a.Lhs[0].(*ast.Ident); ok {
				c.checkDecl(id)
				x = a.Rhs[0]
			}
		}
	}
	ta, ok := x.(*ast.TypeAssertExpr)
	if !ok {
		c.fi.abort(s.Pos(), "type switch guard")
	}
	e := c.newEv()
	e.expr(ta.X)
	pre = c.seqAt(s.Pos(), pre, e.cur)
	ft, term, st := c.clauses(s.Pos(), pre, s.Body, false)
	return ft, term, seqS(preS, e.stm(), st)
}
