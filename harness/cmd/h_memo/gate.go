// The recording / gating / fault-injecting inner store: a pure storage.Store / storage.Graph implementation that
// wraps storage/memory.  It needs no hook inside /repo: every yield point of the memoizer that matters for the
// interleavings lies at the wrapped store's interface (before a forwarded write applies, before and after a
// forwarded read), and a forwarded call carries the caller's context, which is how a parked call is attributed to a
// logical thread.
package main

import (
	"context"
	"errors"
	"fmt"
	"sync"
	"time"

	"github.com/google/badwolf/storage"
	"github.com/google/badwolf/triple"
	"github.com/google/badwolf/triple/node"
	"github.com/google/badwolf/triple/predicate"
)

type tidKey struct{}

func withTid(tid int) context.Context { return context.WithValue(context.Background(), tidKey{}, tid) }

func tidOf(ctx context.Context) int {
	if v, ok := ctx.Value(tidKey{}).(int); ok {
		return v
	}
	return -1
}

// LoJSON is a LookupOptions value as data: anchors and filter options by the renderings that reach the cache key.
type LoJSON struct {
	Max    int     `json:"max"`
	Lower  *string `json:"lower"`
	Upper  *string `json:"upper"`
	Latest bool    `json:"latest"`
	Filter *string `json:"filter"`
	Offset int     `json:"offset"`
}

func loJSON(lo *storage.LookupOptions) LoJSON {
	r := LoJSON{Max: lo.MaxElements, Latest: lo.LatestAnchor, Offset: lo.Offset}
	if lo.LowerAnchor != nil {
		s := lo.LowerAnchor.Format(time.RFC3339Nano)
		r.Lower = &s
	}
	if lo.UpperAnchor != nil {
		s := lo.UpperAnchor.Format(time.RFC3339Nano)
		r.Upper = &s
	}
	if lo.FilterOptions != nil {
		s := lo.FilterOptions.String()
		r.Filter = &s
	}
	return r
}

// QDesc is a lookup request as data: operation, argument UUIDs (what combinedUUID hashes), options.
type QDesc struct {
	Op   string   `json:"op"`
	Args []string `json:"args"`
	Lo   LoJSON   `json:"lo"`
}

// Ans is an observed answer: the rendered elements in delivery order (or the boolean of Exist) and whether an
// error was returned.  Error messages are never compared.
type Ans struct {
	Elems []string `json:"elems"`
	Bool  bool     `json:"bool"`
	Err   bool     `json:"err"`
	Panic string   `json:"panic,omitempty"`
}

// InnerEv is one call that reached the wrapped store.
type InnerEv struct {
	Tid   int      `json:"tid"`
	G     string   `json:"g"`    // graph the call was made on
	Kind  string   `json:"kind"` // read | add | remove
	Q     *QDesc   `json:"q,omitempty"`
	Ids   []string `json:"triples,omitempty"`
	A     Ans      `json:"a"`
	Fault string   `json:"fault,omitempty"`
}

type parkEv struct {
	tid   int
	point string
}

var errInjected = errors.New("injected driver failure")

// ctl is shared by every graph handle of one gated store.
type ctl struct {
	mu      sync.Mutex
	gating  bool
	parkCh  chan parkEv
	resume  map[int]chan struct{}
	log     []InnerEv
	version int        // number of writes applied to the wrapped store so far
	snaps   [][]string // listing of the graph after each version (gating mode only)
	snapFn  func() []string
	// fault plan: the n-th forwarded read (0-based, counted over the whole run) fails after delivering `after`
	// elements; the n-th forwarded write fails without being applied.
	readFaults  map[int]int
	writeFaults map[int]bool
	nReads      int
	nWrites     int
	inflight    int // forwarded channel lookups that have not returned yet
}

// settled waits until no forwarded lookup is in flight any more; false = one is still blocked after the grace period
// (the memoizer has returned without draining it).
func (c *ctl) settled(grace time.Duration) bool {
	deadline := time.Now().Add(grace)
	for {
		c.mu.Lock()
		n := c.inflight
		c.mu.Unlock()
		if n == 0 {
			return true
		}
		if time.Now().After(deadline) {
			return false
		}
		time.Sleep(200 * time.Microsecond)
	}
}

func newCtl(gating bool, nthreads int) *ctl {
	c := &ctl{gating: gating, parkCh: make(chan parkEv), resume: map[int]chan struct{}{},
		readFaults: map[int]int{}, writeFaults: map[int]bool{}}
	for i := 0; i < nthreads; i++ {
		c.resume[i] = make(chan struct{})
	}
	return c
}

func (c *ctl) park(ctx context.Context, point string) {
	tid := tidOf(ctx)
	c.mu.Lock()
	g := c.gating
	c.mu.Unlock()
	if !g || tid < 0 {
		return
	}
	c.parkCh <- parkEv{tid, point}
	<-c.resume[tid]
}

func (c *ctl) record(ev InnerEv) {
	c.mu.Lock()
	c.log = append(c.log, ev)
	c.mu.Unlock()
}

func (c *ctl) takeLog() []InnerEv {
	c.mu.Lock()
	l := c.log
	c.log = nil
	c.mu.Unlock()
	return l
}

type gStore struct {
	in storage.Store
	c  *ctl
}

func (s *gStore) Name(ctx context.Context) string    { return s.in.Name(ctx) }
func (s *gStore) Version(ctx context.Context) string { return s.in.Version(ctx) }
func (s *gStore) NewGraph(ctx context.Context, id string) (storage.Graph, error) {
	g, err := s.in.NewGraph(ctx, id)
	if err != nil {
		return nil, err
	}
	return &gGraph{in: g, c: s.c}, nil
}
func (s *gStore) Graph(ctx context.Context, id string) (storage.Graph, error) {
	g, err := s.in.Graph(ctx, id)
	if err != nil {
		return nil, err
	}
	return &gGraph{in: g, c: s.c}, nil
}
func (s *gStore) DeleteGraph(ctx context.Context, id string) error { return s.in.DeleteGraph(ctx, id) }
func (s *gStore) GraphNames(ctx context.Context, names chan<- string) error {
	return s.in.GraphNames(ctx, names)
}

type gGraph struct {
	in storage.Graph
	c  *ctl
}

func (g *gGraph) ID(ctx context.Context) string { return g.in.ID(ctx) }

func (g *gGraph) write(ctx context.Context, kind string, ts []*triple.Triple, call func() error) error {
	g.c.park(ctx, "write-entry")
	g.c.mu.Lock()
	n := g.c.nWrites
	g.c.nWrites++
	fail := g.c.writeFaults[n]
	g.c.mu.Unlock()
	var err error
	fault := ""
	if fail {
		err = errInjected
		fault = "write-not-applied"
	} else {
		err = call()
	}
	ids := []string{}
	for _, t := range ts {
		ids = append(ids, t.String())
	}
	g.c.mu.Lock()
	g.c.version++
	if g.c.snapFn != nil {
		g.c.snaps = append(g.c.snaps, g.c.snapFn())
	}
	g.c.mu.Unlock()
	g.c.record(InnerEv{Tid: tidOf(ctx), G: g.in.ID(ctx), Kind: kind, Ids: ids, A: Ans{Err: err != nil}, Fault: fault})
	return err
}

func (g *gGraph) AddTriples(ctx context.Context, ts []*triple.Triple) error {
	return g.write(ctx, "add", ts, func() error { return g.in.AddTriples(ctx, ts) })
}

func (g *gGraph) RemoveTriples(ctx context.Context, ts []*triple.Triple) error {
	return g.write(ctx, "remove", ts, func() error { return g.in.RemoveTriples(ctx, ts) })
}

// gread forwards one channel lookup: park, run the wrapped lookup, relay (possibly cut short by an injected
// failure), close the caller's channel as the Graph contract demands, park again, return.
func gread[T any](g *gGraph, ctx context.Context, q QDesc, out chan<- T, call func(chan<- T) error, render func(T) string) error {
	g.c.park(ctx, "read-entry")
	g.c.mu.Lock()
	n := g.c.nReads
	g.c.nReads++
	g.c.inflight++
	after, faulty := g.c.readFaults[n]
	g.c.mu.Unlock()
	defer func() {
		g.c.mu.Lock()
		g.c.inflight--
		g.c.mu.Unlock()
	}()
	c := make(chan T)
	var ierr error
	done := make(chan struct{})
	go func() {
		defer close(done)
		ierr = call(c)
	}()
	seen := []string{}
	k := 0
	for x := range c {
		if faulty && k >= after {
			continue // drain the wrapped store; the caller sees a truncated stream
		}
		out <- x
		seen = append(seen, render(x))
		k++
	}
	<-done
	close(out)
	err := ierr
	fault := ""
	if faulty {
		err = errInjected
		fault = fmt.Sprintf("read-fails-after-%d", after)
	}
	g.c.record(InnerEv{Tid: tidOf(ctx), G: g.in.ID(ctx), Kind: "read", Q: &q, A: Ans{Elems: seen, Err: err != nil}, Fault: fault})
	g.c.park(ctx, "read-exit")
	return err
}

func rNode(n *node.Node) string           { return n.String() }
func rPred(p *predicate.Predicate) string { return p.String() }
func rObj(o *triple.Object) string        { return o.String() }
func rTrip(t *triple.Triple) string       { return t.String() }

func (g *gGraph) Objects(ctx context.Context, s *node.Node, p *predicate.Predicate, lo *storage.LookupOptions, objs chan<- *triple.Object) error {
	q := QDesc{"Objects", []string{s.UUID().String(), p.UUID().String()}, loJSON(lo)}
	return gread(g, ctx, q, objs, func(c chan<- *triple.Object) error { return g.in.Objects(ctx, s, p, lo, c) }, rObj)
}
func (g *gGraph) Subjects(ctx context.Context, p *predicate.Predicate, o *triple.Object, lo *storage.LookupOptions, subs chan<- *node.Node) error {
	q := QDesc{"Subjects", []string{p.UUID().String(), o.UUID().String()}, loJSON(lo)}
	return gread(g, ctx, q, subs, func(c chan<- *node.Node) error { return g.in.Subjects(ctx, p, o, lo, c) }, rNode)
}
func (g *gGraph) PredicatesForSubject(ctx context.Context, s *node.Node, lo *storage.LookupOptions, prds chan<- *predicate.Predicate) error {
	q := QDesc{"PredicatesForSubject", []string{s.UUID().String()}, loJSON(lo)}
	return gread(g, ctx, q, prds, func(c chan<- *predicate.Predicate) error { return g.in.PredicatesForSubject(ctx, s, lo, c) }, rPred)
}
func (g *gGraph) PredicatesForObject(ctx context.Context, o *triple.Object, lo *storage.LookupOptions, prds chan<- *predicate.Predicate) error {
	q := QDesc{"PredicatesForObject", []string{o.UUID().String()}, loJSON(lo)}
	return gread(g, ctx, q, prds, func(c chan<- *predicate.Predicate) error { return g.in.PredicatesForObject(ctx, o, lo, c) }, rPred)
}
func (g *gGraph) PredicatesForSubjectAndObject(ctx context.Context, s *node.Node, o *triple.Object, lo *storage.LookupOptions, prds chan<- *predicate.Predicate) error {
	q := QDesc{"PredicatesForSubjectAndObject", []string{s.UUID().String(), o.UUID().String()}, loJSON(lo)}
	return gread(g, ctx, q, prds, func(c chan<- *predicate.Predicate) error {
		return g.in.PredicatesForSubjectAndObject(ctx, s, o, lo, c)
	}, rPred)
}
func (g *gGraph) TriplesForSubject(ctx context.Context, s *node.Node, lo *storage.LookupOptions, trpls chan<- *triple.Triple) error {
	q := QDesc{"TriplesForSubject", []string{s.UUID().String()}, loJSON(lo)}
	return gread(g, ctx, q, trpls, func(c chan<- *triple.Triple) error { return g.in.TriplesForSubject(ctx, s, lo, c) }, rTrip)
}
func (g *gGraph) TriplesForPredicate(ctx context.Context, p *predicate.Predicate, lo *storage.LookupOptions, trpls chan<- *triple.Triple) error {
	q := QDesc{"TriplesForPredicate", []string{p.UUID().String()}, loJSON(lo)}
	return gread(g, ctx, q, trpls, func(c chan<- *triple.Triple) error { return g.in.TriplesForPredicate(ctx, p, lo, c) }, rTrip)
}
func (g *gGraph) TriplesForObject(ctx context.Context, o *triple.Object, lo *storage.LookupOptions, trpls chan<- *triple.Triple) error {
	q := QDesc{"TriplesForObject", []string{o.UUID().String()}, loJSON(lo)}
	return gread(g, ctx, q, trpls, func(c chan<- *triple.Triple) error { return g.in.TriplesForObject(ctx, o, lo, c) }, rTrip)
}
func (g *gGraph) TriplesForSubjectAndPredicate(ctx context.Context, s *node.Node, p *predicate.Predicate, lo *storage.LookupOptions, trpls chan<- *triple.Triple) error {
	q := QDesc{"TriplesForSubjectAndPredicate", []string{s.UUID().String(), p.UUID().String()}, loJSON(lo)}
	return gread(g, ctx, q, trpls, func(c chan<- *triple.Triple) error {
		return g.in.TriplesForSubjectAndPredicate(ctx, s, p, lo, c)
	}, rTrip)
}
func (g *gGraph) TriplesForPredicateAndObject(ctx context.Context, p *predicate.Predicate, o *triple.Object, lo *storage.LookupOptions, trpls chan<- *triple.Triple) error {
	q := QDesc{"TriplesForPredicateAndObject", []string{p.UUID().String(), o.UUID().String()}, loJSON(lo)}
	return gread(g, ctx, q, trpls, func(c chan<- *triple.Triple) error {
		return g.in.TriplesForPredicateAndObject(ctx, p, o, lo, c)
	}, rTrip)
}
func (g *gGraph) Triples(ctx context.Context, lo *storage.LookupOptions, trpls chan<- *triple.Triple) error {
	q := QDesc{"Triples", []string{}, loJSON(lo)}
	return gread(g, ctx, q, trpls, func(c chan<- *triple.Triple) error { return g.in.Triples(ctx, lo, c) }, rTrip)
}

func (g *gGraph) Exist(ctx context.Context, t *triple.Triple) (bool, error) {
	q := QDesc{"Exist", []string{t.UUID().String()}, loJSON(storage.DefaultLookup)}
	g.c.park(ctx, "read-entry")
	g.c.mu.Lock()
	n := g.c.nReads
	g.c.nReads++
	_, faulty := g.c.readFaults[n]
	g.c.mu.Unlock()
	b, err := g.in.Exist(ctx, t)
	fault := ""
	if faulty {
		b, err, fault = false, errInjected, "exist-fails"
	}
	g.c.record(InnerEv{Tid: tidOf(ctx), G: g.in.ID(ctx), Kind: "read", Q: &q, A: Ans{Bool: b, Err: err != nil}, Fault: fault})
	g.c.park(ctx, "read-exit")
	return b, err
}
