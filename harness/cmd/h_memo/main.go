// h_memo: correspondence harness for C19 (memoization.New(store) is observationally the wrapped store).
//
//	-mode seq      random lock-step histories: memoization.New(recording(memory)) vs a plain memory store, all twelve
//	               read operations with option combinations, 1-3 handles over 1-2 graphs; optional injected failures
//	-mode tiny     run sequential histories over numbered triples given as JSON lines on stdin (witness replays)
//	-mode explore  one writer / one or two readers given as JSON lines on stdin: enumerate EVERY interleaving at the
//	               wrapped store's interface with the gating inner store and print one line per complete schedule
//	-mode sched    replay given schedules (stdin: {"scn":...,"sched":[...]})
//
// One JSON object per output line.  Nothing printed depends on addresses, durations or error messages.
package main

import (
	"bufio"
	"context"
	"encoding/json"
	"flag"
	"fmt"
	"math/rand"
	"os"
	"runtime/pprof"
	"sort"
	"sync"
	"time"

	"github.com/google/badwolf/bql/planner/filter"
	"github.com/google/badwolf/storage"
	"github.com/google/badwolf/storage/memoization"
	"github.com/google/badwolf/storage/memory"
	"github.com/google/badwolf/triple"
	"github.com/google/badwolf/triple/literal"
	"github.com/google/badwolf/triple/node"
	"github.com/google/badwolf/triple/predicate"
)

func must[T any](v T, err error) T {
	if err != nil {
		panic(err)
	}
	return v
}

// ------------------------------------------------------------------------------------------------ running a read

// collect runs a channel lookup and returns what it delivered.
func collect[T any](call func(chan<- T) error, render func(T) string) (a Ans) {
	c := make(chan T)
	done := make(chan struct{})
	var err error
	var pan string
	go func() {
		defer close(done)
		defer func() {
			if r := recover(); r != nil {
				pan = fmt.Sprint(r)
				// the callee did not close the channel: unblock the reader
				defer func() { recover() }()
				close(c)
			}
		}()
		err = call(c)
	}()
	a.Elems = []string{}
	for x := range c {
		a.Elems = append(a.Elems, render(x))
	}
	<-done
	a.Err = err != nil
	a.Panic = pan
	return a
}

// collectCancel runs a channel lookup whose caller takes k elements, cancels its context and stops receiving.
func collectCancel[T any](k int, call func(context.Context, chan<- T) error, render func(T) string) (a Ans) {
	ctx, cancel := context.WithCancel(withTid(-1))
	defer cancel()
	c := make(chan T)
	done := make(chan struct{})
	var err error
	go func() {
		defer close(done)
		err = call(ctx, c)
	}()
	a.Elems = []string{}
	closed := false
	for i := 0; i < k; i++ {
		x, ok := <-c
		if !ok {
			closed = true
			break
		}
		a.Elems = append(a.Elems, render(x))
	}
	if !closed {
		cancel()
	}
	<-done
	a.Err = err != nil
	return a
}

// Query is a lookup request over concrete values.
type Query struct {
	Op string
	S  *node.Node
	P  *predicate.Predicate
	O  *triple.Object
	T  *triple.Triple
	Lo storage.LookupOptions // copied for every call: storage/memory writes into the options it is given
	// next: asked right after this one through the same handle, with a fresh options value (back-to-back pairs)
	next *Query
}

func (q *Query) desc() QDesc {
	lo := q.Lo
	return q.descLo(&lo)
}

// descLo describes the request with the options as they are in *l right now.
func (q *Query) descLo(l *storage.LookupOptions) QDesc {
	d := QDesc{Op: q.Op, Args: []string{}, Lo: loJSON(l)}
	switch q.Op {
	case "Objects", "TriplesForSubjectAndPredicate":
		d.Args = []string{q.S.UUID().String(), q.P.UUID().String()}
	case "Subjects", "TriplesForPredicateAndObject":
		d.Args = []string{q.P.UUID().String(), q.O.UUID().String()}
	case "PredicatesForSubject", "TriplesForSubject":
		d.Args = []string{q.S.UUID().String()}
	case "PredicatesForObject", "TriplesForObject":
		d.Args = []string{q.O.UUID().String()}
	case "PredicatesForSubjectAndObject":
		d.Args = []string{q.S.UUID().String(), q.O.UUID().String()}
	case "TriplesForPredicate":
		d.Args = []string{q.P.UUID().String()}
	case "Exist":
		d.Args = []string{q.T.UUID().String()}
		d.Lo = loJSON(storage.DefaultLookup)
	}
	return d
}

func (q *Query) run(ctx context.Context, g storage.Graph) Ans {
	lo := q.Lo // fresh copy
	return q.runLo(ctx, g, &lo)
}

// runCancel issues the request with a context that the caller cancels after taking k elements.
func (q *Query) runCancel(g storage.Graph, l *storage.LookupOptions, k int) Ans {
	switch q.Op {
	case "Objects":
		return collectCancel(k, func(ctx context.Context, c chan<- *triple.Object) error { return g.Objects(ctx, q.S, q.P, l, c) }, rObj)
	case "Subjects":
		return collectCancel(k, func(ctx context.Context, c chan<- *node.Node) error { return g.Subjects(ctx, q.P, q.O, l, c) }, rNode)
	case "PredicatesForSubject":
		return collectCancel(k, func(ctx context.Context, c chan<- *predicate.Predicate) error {
			return g.PredicatesForSubject(ctx, q.S, l, c)
		}, rPred)
	case "PredicatesForObject":
		return collectCancel(k, func(ctx context.Context, c chan<- *predicate.Predicate) error {
			return g.PredicatesForObject(ctx, q.O, l, c)
		}, rPred)
	case "PredicatesForSubjectAndObject":
		return collectCancel(k, func(ctx context.Context, c chan<- *predicate.Predicate) error {
			return g.PredicatesForSubjectAndObject(ctx, q.S, q.O, l, c)
		}, rPred)
	case "TriplesForSubject":
		return collectCancel(k, func(ctx context.Context, c chan<- *triple.Triple) error { return g.TriplesForSubject(ctx, q.S, l, c) }, rTrip)
	case "TriplesForPredicate":
		return collectCancel(k, func(ctx context.Context, c chan<- *triple.Triple) error { return g.TriplesForPredicate(ctx, q.P, l, c) }, rTrip)
	case "TriplesForObject":
		return collectCancel(k, func(ctx context.Context, c chan<- *triple.Triple) error { return g.TriplesForObject(ctx, q.O, l, c) }, rTrip)
	case "TriplesForSubjectAndPredicate":
		return collectCancel(k, func(ctx context.Context, c chan<- *triple.Triple) error {
			return g.TriplesForSubjectAndPredicate(ctx, q.S, q.P, l, c)
		}, rTrip)
	case "TriplesForPredicateAndObject":
		return collectCancel(k, func(ctx context.Context, c chan<- *triple.Triple) error {
			return g.TriplesForPredicateAndObject(ctx, q.P, q.O, l, c)
		}, rTrip)
	case "Triples":
		return collectCancel(k, func(ctx context.Context, c chan<- *triple.Triple) error { return g.Triples(ctx, l, c) }, rTrip)
	}
	// Exist does not look at the context
	return q.runLo(withTid(-1), g, l)
}

// runLo issues the request with the caller's own options value (callers keep and re-use option values, change their
// fields in place between calls and derive new ones by struct copy).
func (q *Query) runLo(ctx context.Context, g storage.Graph, l *storage.LookupOptions) Ans {
	switch q.Op {
	case "Objects":
		return collect(func(c chan<- *triple.Object) error { return g.Objects(ctx, q.S, q.P, l, c) }, rObj)
	case "Subjects":
		return collect(func(c chan<- *node.Node) error { return g.Subjects(ctx, q.P, q.O, l, c) }, rNode)
	case "PredicatesForSubject":
		return collect(func(c chan<- *predicate.Predicate) error { return g.PredicatesForSubject(ctx, q.S, l, c) }, rPred)
	case "PredicatesForObject":
		return collect(func(c chan<- *predicate.Predicate) error { return g.PredicatesForObject(ctx, q.O, l, c) }, rPred)
	case "PredicatesForSubjectAndObject":
		return collect(func(c chan<- *predicate.Predicate) error {
			return g.PredicatesForSubjectAndObject(ctx, q.S, q.O, l, c)
		}, rPred)
	case "TriplesForSubject":
		return collect(func(c chan<- *triple.Triple) error { return g.TriplesForSubject(ctx, q.S, l, c) }, rTrip)
	case "TriplesForPredicate":
		return collect(func(c chan<- *triple.Triple) error { return g.TriplesForPredicate(ctx, q.P, l, c) }, rTrip)
	case "TriplesForObject":
		return collect(func(c chan<- *triple.Triple) error { return g.TriplesForObject(ctx, q.O, l, c) }, rTrip)
	case "TriplesForSubjectAndPredicate":
		return collect(func(c chan<- *triple.Triple) error { return g.TriplesForSubjectAndPredicate(ctx, q.S, q.P, l, c) }, rTrip)
	case "TriplesForPredicateAndObject":
		return collect(func(c chan<- *triple.Triple) error { return g.TriplesForPredicateAndObject(ctx, q.P, q.O, l, c) }, rTrip)
	case "Triples":
		return collect(func(c chan<- *triple.Triple) error { return g.Triples(ctx, l, c) }, rTrip)
	case "Exist":
		b, err := g.Exist(ctx, q.T)
		return Ans{Elems: []string{}, Bool: b, Err: err != nil}
	}
	panic("unknown op " + q.Op)
}

// ------------------------------------------------------------------------------------------------ vocabulary

type vocab struct {
	nodes   []*node.Node
	preds   []*predicate.Predicate
	objs    []*triple.Object
	triples []*triple.Triple
	anchors []*time.Time
	filters []*filter.StorageOptions
}

func newVocab(rng *rand.Rand) *vocab {
	v := &vocab{}
	for _, s := range []string{"/u<a>", "/u<b>", "/u<c>", "/t<a>"} {
		v.nodes = append(v.nodes, must(node.Parse(s)))
	}
	for _, s := range []string{`"knows"@[]`, `"likes"@[]`, `"meet"@[2012-04-10T04:21:00Z]`, `"meet"@[2013-04-10T04:21:00Z]`,
		`"meet"@[2014-04-10T04:21:00.5Z]`, `"see"@[2012-04-10T04:21:00Z]`, `"see"@[2014-04-10T04:21:00.5Z]`,
		`"meet"@[2013-04-10T06:21:00+02:00]`} {
		v.preds = append(v.preds, must(predicate.Parse(s)))
	}
	for _, n := range v.nodes[:3] {
		v.objs = append(v.objs, triple.NewNodeObject(n))
	}
	for _, s := range []string{`"1"^^type:int64`, `"x"^^type:text`, `"true"^^type:bool`} {
		v.objs = append(v.objs, triple.NewLiteralObject(must(literal.DefaultBuilder().Parse(s))))
	}
	v.objs = append(v.objs, triple.NewPredicateObject(v.preds[3]), triple.NewPredicateObject(v.preds[0]),
		triple.NewPredicateObject(v.preds[6]))
	seen := map[string]bool{}
	for len(v.triples) < 28 {
		t := must(triple.New(v.nodes[rng.Intn(len(v.nodes))], v.preds[rng.Intn(len(v.preds))], v.objs[rng.Intn(len(v.objs))]))
		if !seen[t.String()] {
			seen[t.String()] = true
			v.triples = append(v.triples, t)
		}
	}
	for _, s := range []string{"2011-01-01T00:00:00Z", "2012-04-10T04:21:00Z", "2013-01-01T00:00:00.000000001Z",
		"2014-04-10T04:21:00.5Z", "2015-01-01T00:00:00Z", "2013-04-10T06:21:00+02:00"} {
		t := must(time.Parse(time.RFC3339Nano, s))
		v.anchors = append(v.anchors, &t)
	}
	v.filters = []*filter.StorageOptions{
		{Operation: filter.Latest, Field: filter.PredicateField},
		{Operation: filter.IsImmutable, Field: filter.PredicateField},
		{Operation: filter.IsTemporal, Field: filter.PredicateField},
		{Operation: filter.Latest, Field: filter.ObjectField},
		{Operation: filter.IsTemporal, Field: filter.ObjectField},
		{Operation: filter.IsImmutable, Field: filter.SubjectField}, // rejected by the driver
		{Operation: filter.Operation(9), Field: filter.PredicateField, Value: "v"},
	}
	return v
}

var opNames = []string{"Objects", "Subjects", "PredicatesForSubject", "PredicatesForObject", "PredicatesForSubjectAndObject",
	"TriplesForSubject", "TriplesForPredicate", "TriplesForObject", "TriplesForSubjectAndPredicate",
	"TriplesForPredicateAndObject", "Exist", "Triples"}

func (v *vocab) randLo(rng *rand.Rand) storage.LookupOptions {
	lo := storage.LookupOptions{}
	switch rng.Intn(10) {
	case 0, 1, 2:
		lo.MaxElements = 0
	case 3, 4:
		lo.MaxElements = 1
	case 5, 6:
		lo.MaxElements = 2
	case 7:
		lo.MaxElements = 3
	case 8:
		lo.MaxElements = 7
	case 9:
		lo.MaxElements = -1
	}
	switch rng.Intn(12) {
	case 0, 1, 2, 3, 4, 5, 6, 7:
		lo.Offset = 0
	case 8, 9:
		lo.Offset = 1
	case 10:
		lo.Offset = 2
	case 11:
		lo.Offset = -1 + 4*rng.Intn(2)
	}
	if rng.Intn(6) == 0 {
		lo.LowerAnchor = v.anchors[rng.Intn(3)]
	}
	if rng.Intn(6) == 0 {
		lo.UpperAnchor = v.anchors[2+rng.Intn(len(v.anchors)-2)]
	}
	if rng.Intn(8) == 0 {
		lo.LatestAnchor = true
	}
	if rng.Intn(5) == 0 && (!lo.LatestAnchor || rng.Intn(4) == 0) {
		f := *v.filters[rng.Intn(len(v.filters))]
		lo.FilterOptions = &f
	}
	return lo
}

// mutateLo changes one field of a long-lived options value in place (same change on the twin).
func (v *vocab) mutateLo(rng *rand.Rand, a, b *storage.LookupOptions) {
	switch rng.Intn(6) {
	case 0:
		m := []int{0, 1, 2, 3, 7}[rng.Intn(5)]
		if m == a.MaxElements {
			m = a.MaxElements + 1
		}
		a.MaxElements, b.MaxElements = m, m
	case 1:
		var t *time.Time
		if a.LowerAnchor == nil || rng.Intn(3) != 0 {
			t = v.anchors[rng.Intn(len(v.anchors))]
		}
		a.LowerAnchor, b.LowerAnchor = t, t
	case 2:
		var t *time.Time
		if a.UpperAnchor == nil || rng.Intn(3) != 0 {
			t = v.anchors[rng.Intn(len(v.anchors))]
		}
		a.UpperAnchor, b.UpperAnchor = t, t
	case 3:
		l := !a.LatestAnchor
		a.LatestAnchor, b.LatestAnchor = l, l
		if l {
			a.FilterOptions, b.FilterOptions = nil, nil
		}
	case 4:
		var f *filter.StorageOptions
		if a.FilterOptions == nil || rng.Intn(3) != 0 {
			c := *v.filters[rng.Intn(5)]
			f = &c
		}
		a.FilterOptions, b.FilterOptions = f, f
	case 5:
		o := rng.Intn(3)
		a.Offset, b.Offset = o, o
	}
}

// randQuery draws a request; arguments are taken from a stored triple most of the time so that answers are non-empty.
func (v *vocab) randQuery(rng *rand.Rand, present []*triple.Triple) *Query {
	q := &Query{Op: opNames[rng.Intn(len(opNames))]}
	if rng.Intn(5) == 0 {
		q.Op = "Triples"
	}
	var t *triple.Triple
	if len(present) > 0 && rng.Intn(10) != 0 {
		t = present[rng.Intn(len(present))]
	} else {
		t = v.triples[rng.Intn(len(v.triples))]
	}
	q.S, q.P, q.O, q.T = t.Subject(), t.Predicate(), t.Object(), t
	if rng.Intn(12) == 0 {
		q.P = v.preds[rng.Intn(len(v.preds))]
	}
	if rng.Intn(12) == 0 {
		q.O = v.objs[rng.Intn(len(v.objs))]
	}
	q.Lo = v.randLo(rng)
	return q
}

// variant: same request with another page / page size (the requests that share a pre-F16 cache key)
func variant(rng *rand.Rand, q *Query) *Query {
	r := *q
	switch rng.Intn(3) {
	case 0:
		r.Lo.Offset = rng.Intn(4)
	case 1:
		r.Lo.Offset = q.Lo.Offset + 1
	case 2:
		if r.Lo.MaxElements == 0 {
			r.Lo.MaxElements = 1 + rng.Intn(2)
		}
		r.Lo.Offset = rng.Intn(3)
	}
	return &r
}

// crossOp: another operation on the SAME argument values and options, with a node also moved between the subject and
// the object position (requests whose keys differ only in the operation name or in the position of a UUID)
func crossOp(rng *rand.Rand, q *Query) *Query {
	r := *q
	// operations whose argument UUID lists can coincide: the key then differs in the operation name only
	groups := [][]string{
		{"PredicatesForSubject", "TriplesForSubject", "PredicatesForObject", "TriplesForObject"},
		{"Objects", "TriplesForSubjectAndPredicate"},
		{"Subjects", "TriplesForPredicateAndObject"},
	}
	r.Op = opNames[rng.Intn(len(opNames))]
	for _, g := range groups {
		for _, o := range g {
			if o == q.Op && rng.Intn(4) != 0 {
				r.Op = g[rng.Intn(len(g))]
			}
		}
	}
	subj := func(o string) bool { return o == "PredicatesForSubject" || o == "TriplesForSubject" }
	obj := func(o string) bool { return o == "PredicatesForObject" || o == "TriplesForObject" }
	if subj(q.Op) && obj(r.Op) {
		r.O = triple.NewNodeObject(q.S) // same UUID in the object position
	} else if n, err := q.O.Node(); err == nil && obj(q.Op) && subj(r.Op) {
		r.S = n
	} else if err == nil && rng.Intn(2) == 0 {
		r.S, r.O = n, triple.NewNodeObject(q.S)
	}
	if r.Op == "Exist" {
		if t, err := triple.New(r.S, r.P, r.O); err == nil {
			r.T = t
		}
	}
	return &r
}

// anchorPair: two lookups inside one time window that differ ONLY in the anchor of a temporal predicate argument
// (same predicate id), the first one about a stored triple so that its answer is not empty; asked back to back.
func (v *vocab) anchorPair(rng *rand.Rand, present []*triple.Triple) *Query {
	var cands []*triple.Triple
	for _, t := range present {
		if t.Predicate().Type() == predicate.Temporal {
			cands = append(cands, t)
		}
	}
	if len(cands) == 0 {
		return nil
	}
	t := cands[rng.Intn(len(cands))]
	var others []*predicate.Predicate
	for _, p := range v.preds {
		if p.Type() == predicate.Temporal && p.ID() == t.Predicate().ID() && p.String() != t.Predicate().String() {
			others = append(others, p)
		}
	}
	if len(others) == 0 {
		return nil
	}
	ops := []string{"Objects", "Subjects", "TriplesForPredicate", "TriplesForSubjectAndPredicate", "TriplesForPredicateAndObject"}
	lo := storage.LookupOptions{}
	switch rng.Intn(3) {
	case 0:
		lo.LowerAnchor, lo.UpperAnchor = v.anchors[0], v.anchors[4] // 2011 .. 2015: every anchor of the vocabulary
	case 1:
		lo.LowerAnchor = v.anchors[0]
	case 2:
		lo.UpperAnchor = v.anchors[4]
	}
	if rng.Intn(4) == 0 {
		lo.MaxElements = 1 + rng.Intn(3)
	}
	q1 := &Query{Op: ops[rng.Intn(len(ops))], S: t.Subject(), P: t.Predicate(), O: t.Object(), T: t, Lo: lo}
	q2 := *q1
	q2.P = others[rng.Intn(len(others))]
	if rng.Intn(3) == 0 {
		q3 := *q1 // ... and the first one once more afterwards
		q2.next = &q3
	}
	q1.next = &q2
	return q1
}

// argVariant: the same operation and options with ONE argument replaced (requests whose keys differ in one UUID only)
func (v *vocab) argVariant(rng *rand.Rand, q *Query, present []*triple.Triple) *Query {
	r := *q
	var t *triple.Triple
	if len(present) > 0 {
		t = present[rng.Intn(len(present))]
	} else {
		t = v.triples[rng.Intn(len(v.triples))]
	}
	switch rng.Intn(3) {
	case 0:
		r.S = t.Subject()
	case 1:
		r.P = t.Predicate()
	case 2:
		r.O = t.Object()
	}
	if tt, err := triple.New(r.S, r.P, r.O); err == nil {
		r.T = tt
	}
	return &r
}

// ------------------------------------------------------------------------------------------------ pooled stores
// storage/memory pre-sizes seven maps with 10000 buckets for every new graph (a few milliseconds each), so the
// harness re-uses memory stores: a pooled store has the graphs "?a", "?b", "?g" and is emptied before re-use.

type pooled struct {
	st storage.Store
	gs map[string]storage.Graph
}

var pool []*pooled

func emptyGraph(g storage.Graph) {
	ctx := withTid(-1)
	var ts []*triple.Triple
	c := make(chan *triple.Triple)
	go func() { must(0, g.Triples(ctx, storage.DefaultLookup, c)) }()
	for t := range c {
		ts = append(ts, t)
	}
	if len(ts) > 0 {
		must(0, g.RemoveTriples(ctx, ts))
	}
}

func getStore() *pooled {
	if n := len(pool); n > 0 {
		p := pool[n-1]
		pool = pool[:n-1]
		for _, g := range p.gs {
			emptyGraph(g)
		}
		return p
	}
	p := &pooled{st: memory.NewStore(), gs: map[string]storage.Graph{}}
	for _, n := range []string{"?a", "?b", "?g"} {
		p.gs[n] = must(p.st.NewGraph(withTid(-1), n))
	}
	return p
}

func putStore(p *pooled) { pool = append(pool, p) }

// ------------------------------------------------------------------------------------------------ mode seq

type SeqOp struct {
	H       int       `json:"h"`
	K       string    `json:"k"` // open | add | remove | read
	G       int       `json:"g"`
	Triples []string  `json:"triples,omitempty"`
	Q       *QDesc    `json:"q,omitempty"`
	LoStr   string    `json:"lostr,omitempty"`
	Memo    *Ans      `json:"memo,omitempty"`
	Plain   *Ans      `json:"plain,omitempty"`
	Fwd     []InnerEv `json:"fwd"`
	LoUse   string    `json:"lo_use,omitempty"` // how the options value of this call came about
	Cancel  *int      `json:"cancel,omitempty"` // the caller cancelled its context after taking this many elements
	Leak    bool      `json:"leak,omitempty"`   // a forwarded lookup was still blocked after the memoizer had returned
}

type SeqCase struct {
	Kind    string  `json:"kind"`
	ID      int     `json:"id"`
	Seed    int64   `json:"seed"`
	Faults  bool    `json:"faults"`
	Cancels bool    `json:"cancels"`
	Big     int     `json:"big,omitempty"` // sized history: every streaming lookup has more than this many results
	Ops     []SeqOp `json:"ops"`
}

func tstrings(ts []*triple.Triple) []string {
	out := []string{}
	for _, t := range ts {
		out = append(out, t.String())
	}
	return out
}

func genSeq(id int, seed int64, faults, cancels bool) SeqCase {
	rng := rand.New(rand.NewSource(seed))
	v := newVocab(rng)
	ctx := withTid(-1)
	c := newCtl(false, 0)
	freshStores := id%8 == 0 // then the graphs are created through the memoizer's NewGraph
	var pi, pp *pooled
	var innerMem, plain storage.Store
	if freshStores {
		innerMem, plain = memory.NewStore(), memory.NewStore()
	} else {
		pi, pp = getStore(), getStore()
		defer func() {
			if pi != nil { // nil: a lookup was left blocked inside it
				putStore(pi)
			}
			putStore(pp)
		}()
		innerMem, plain = pi.st, pp.st
	}
	inner := &gStore{in: innerMem, c: c}
	memo := memoization.New(inner)
	cs := SeqCase{Kind: "seq", ID: id, Seed: seed, Faults: faults, Cancels: cancels}
	var again *Query // after a cancelled lookup: the same lookup with a live context
	againH := 0

	ngraphs := 1 + rng.Intn(4)/3
	gnames := []string{"?a", "?b"}
	var handles []storage.Graph // memo handles
	var hgraph []int
	plainG := map[int]storage.Graph{}
	present := map[int]map[string]*triple.Triple{0: {}, 1: {}}
	open := func(g int) {
		var mh storage.Graph
		if _, ok := plainG[g]; !ok && freshStores {
			mh = must(memo.NewGraph(ctx, gnames[g]))
			plainG[g] = must(plain.NewGraph(ctx, gnames[g]))
		} else if !ok {
			mh = must(memo.Graph(ctx, gnames[g]))
			plainG[g] = must(plain.Graph(ctx, gnames[g]))
		} else {
			mh = must(memo.Graph(ctx, gnames[g]))
		}
		handles = append(handles, mh)
		hgraph = append(hgraph, g)
		c.takeLog()
		cs.Ops = append(cs.Ops, SeqOp{H: len(handles) - 1, K: "open", G: g, Fwd: []InnerEv{}})
	}
	open(0)
	maxHandles := 1 + rng.Intn(3)
	nops := 8 + rng.Intn(28)
	var pool []*Query
	type loSlot struct {
		m, p *storage.LookupOptions // long-lived option values: for the memoizer, twin for the plain store
		q    *Query                 // the lookup the caller last made with it
		h    int
	}
	var slots []*loSlot
	presentList := func(g int) []*triple.Triple {
		keys := []string{}
		for k := range present[g] {
			keys = append(keys, k)
		}
		sort.Strings(keys)
		out := []*triple.Triple{}
		for _, k := range keys {
			out = append(out, present[g][k])
		}
		return out
	}
	// initial content
	first := true
	for i := 0; i < nops; i++ {
		r := rng.Intn(100)
		switch {
		case len(handles) < maxHandles && r < 8:
			g := rng.Intn(ngraphs)
			open(g)
		case first || r < 22:
			first = false
			h := rng.Intn(len(handles))
			k := 1 + rng.Intn(6)
			if len(cs.Ops) < 3 {
				k += 6
			}
			var ts []*triple.Triple
			for j := 0; j < k; j++ {
				ts = append(ts, v.triples[rng.Intn(len(v.triples))])
			}
			if faults && rng.Intn(6) == 0 {
				c.writeFaults[c.nWrites] = true
			}
			err := handles[h].AddTriples(ctx, ts)
			fwd := c.takeLog()
			perr := error(nil)
			if err == nil {
				perr = plainG[hgraph[h]].AddTriples(ctx, ts)
				for _, t := range ts {
					present[hgraph[h]][t.String()] = t
				}
			}
			cs.Ops = append(cs.Ops, SeqOp{H: h, K: "add", G: hgraph[h], Triples: tstrings(ts), Memo: &Ans{Elems: []string{}, Err: err != nil},
				Plain: &Ans{Elems: []string{}, Err: perr != nil}, Fwd: fwd})
		case r < 32:
			h := rng.Intn(len(handles))
			pl := presentList(hgraph[h])
			var ts []*triple.Triple
			k := 1 + rng.Intn(3)
			for j := 0; j < k; j++ {
				if len(pl) > 0 && rng.Intn(4) != 0 {
					ts = append(ts, pl[rng.Intn(len(pl))])
				} else {
					ts = append(ts, v.triples[rng.Intn(len(v.triples))])
				}
			}
			if faults && rng.Intn(6) == 0 {
				c.writeFaults[c.nWrites] = true
			}
			err := handles[h].RemoveTriples(ctx, ts)
			fwd := c.takeLog()
			perr := error(nil)
			if err == nil {
				perr = plainG[hgraph[h]].RemoveTriples(ctx, ts)
				for _, t := range ts {
					delete(present[hgraph[h]], t.String())
				}
			}
			cs.Ops = append(cs.Ops, SeqOp{H: h, K: "remove", G: hgraph[h], Triples: tstrings(ts), Memo: &Ans{Elems: []string{}, Err: err != nil},
				Plain: &Ans{Elems: []string{}, Err: perr != nil}, Fwd: fwd})
		default:
			h := rng.Intn(len(handles))
			var q *Query
			switch x := rng.Intn(10); {
			case again != nil && x < 8:
				q, h, again = again, againH, nil
			case len(pool) > 0 && x < 5:
				q = pool[rng.Intn(len(pool))] // repeat: cache hit candidates
			case len(pool) > 0 && x < 6:
				q = variant(rng, pool[rng.Intn(len(pool))])
				pool = append(pool, q)
			case len(pool) > 0 && x < 7:
				q = crossOp(rng, pool[rng.Intn(len(pool))])
				pool = append(pool, q)
			case len(pool) > 0 && x < 8:
				q = v.argVariant(rng, pool[rng.Intn(len(pool))], presentList(hgraph[h]))
				pool = append(pool, q)
			default:
				q = nil
				if rng.Intn(3) == 0 {
					q = v.anchorPair(rng, presentList(hgraph[h]))
				}
				if q == nil {
					q = v.randQuery(rng, presentList(hgraph[h]))
					pool = append(pool, q)
				}
			}
			if faults && rng.Intn(4) == 0 {
				c.readFaults[c.nReads] = rng.Intn(3)
			}
			// the options value handed to the call: a fresh one, or a long-lived one that is re-used, changed in place,
			// or copied as a struct and then changed (one value for the memoizer, a twin for the plain store)
			lm, lp := q.Lo, q.Lo
			ml, pl := &lm, &lp
			how := "fresh"
			if q.next != nil {
				again, againH = q.next, h
			}
			if q.next == nil && rng.Intn(100) < 40 {
				if len(slots) == 0 || (len(slots) < 3 && rng.Intn(5) == 0) {
					slots = append(slots, &loSlot{ml, pl, q, h})
					how = "kept"
				} else {
					k := rng.Intn(len(slots))
					ml, pl = slots[k].m, slots[k].p
					if rng.Intn(4) != 0 {
						// the same lookup again through the same handle, as a caller that keeps its options does
						q, h = slots[k].q, slots[k].h
					}
					switch rng.Intn(5) {
					case 0:
						how = "reused"
					case 1, 2, 3:
						v.mutateLo(rng, ml, pl)
						how = "changed-in-place"
					case 4:
						cm, cp := *ml, *pl
						ml, pl = &cm, &cp
						v.mutateLo(rng, ml, pl)
						slots[k].m, slots[k].p = ml, pl
						how = "struct-copy-changed"
					}
					slots[k].q, slots[k].h = q, h
				}
				q2 := *q
				q2.Lo = *ml
				q2.Lo.FilterOptions = ml.FilterOptions
				q = &q2
				pool = append(pool, q)
			}
			d := q.descLo(ml)
			lostr := ml.String()
			if cancels && q.Op != "Exist" && rng.Intn(100) < 22 {
				// the caller takes k elements, cancels its context and stops receiving
				k := []int{0, 1, 1, 2, 3, 50}[rng.Intn(6)]
				if rng.Intn(2) == 0 {
					// a listing: usually several results, so that the cancellation falls inside the stream
					q2 := *q
					q2.Op = "Triples"
					q2.Lo = storage.LookupOptions{MaxElements: []int{0, 2, 3}[rng.Intn(3)]}
					q = &q2
					lm2, lp2 := q.Lo, q.Lo
					ml, pl = &lm2, &lp2
					d, lostr, how = q.descLo(ml), ml.String(), "fresh"
				}
				ma := q.runCancel(handles[h], ml, k)
				leak := !c.settled(400 * time.Millisecond)
				fwd := c.takeLog()
				pa := q.runLo(ctx, plainG[hgraph[h]], pl)
				if leak {
					// the forwarded lookup never returns: what it would deliver is what the plain store delivers now
					fwd = append(fwd, InnerEv{Tid: -1, G: gnames[hgraph[h]], Kind: "read", Q: &d, A: pa, Fault: "left-blocked"})
				}
				cs.Ops = append(cs.Ops, SeqOp{H: h, K: "read", G: hgraph[h], Q: &d, LoStr: lostr, Memo: &ma, Plain: &pa, Fwd: fwd,
					LoUse: how, Cancel: &k, Leak: leak})
				if leak {
					// the wrapped graph keeps its read lock for ever: the history ends here and the store is not re-used
					pi = nil
					return cs
				}
				again, againH = q, h
				continue
			}
			ma := q.runLo(ctx, handles[h], ml)
			fwd := c.takeLog()
			delete(c.readFaults, c.nReads) // a fault planned for a read that was served from the cache is dropped
			pa := q.runLo(ctx, plainG[hgraph[h]], pl)
			cs.Ops = append(cs.Ops, SeqOp{H: h, K: "read", G: hgraph[h], Q: &d, LoStr: lostr, Memo: &ma, Plain: &pa, Fwd: fwd, LoUse: how})
		}
	}
	return cs
}

// genBig: one sized history.  A graph in which every streaming lookup has well over a thousand results (a subject with
// n triples, an object with n triples, a subject/object pair with n predicates), each lookup asked twice through one
// handle with nothing written in between, then a removal and once more.
func genBig(id int, seed int64) SeqCase {
	rng := rand.New(rand.NewSource(seed))
	n := 1025 + rng.Intn(476)
	ctx := withTid(-1)
	c := newCtl(false, 0)
	inner := &gStore{in: memory.NewStore(), c: c}
	memo := memoization.New(inner)
	plain := memory.NewStore()
	// Faults: the last part injects failures of the wrapped lookups deep inside long streams
	cs := SeqCase{Kind: "seq", ID: id, Seed: seed, Big: n, Faults: true}
	mh := must(memo.NewGraph(ctx, "?a"))
	pg := must(plain.NewGraph(ctx, "?a"))
	c.takeLog()
	cs.Ops = append(cs.Ops, SeqOp{H: 0, K: "open", G: 0, Fwd: []InnerEv{}})
	s0 := must(node.Parse("/big<s>"))
	o0 := triple.NewNodeObject(must(node.Parse("/big<o>")))
	p0 := must(predicate.Parse(`"p"@[]`))
	var ts []*triple.Triple
	for i := 0; i < n; i++ {
		oi := triple.NewNodeObject(must(node.Parse(fmt.Sprintf("/o<%04d>", i))))
		si := must(node.Parse(fmt.Sprintf("/s<%04d>", i)))
		pi := must(predicate.Parse(fmt.Sprintf(`"q%04d"@[]`, i)))
		ts = append(ts, must(triple.New(s0, p0, oi)), must(triple.New(si, p0, o0)), must(triple.New(s0, pi, o0)))
	}
	// a fourth family with pairwise different answers per question: (s_i, r_i, o_i) for the first `many` indices
	const many = 264
	var ds []*triple.Triple
	for i := 0; i < many; i++ {
		oi := triple.NewNodeObject(must(node.Parse(fmt.Sprintf("/o<%04d>", i))))
		si := must(node.Parse(fmt.Sprintf("/s<%04d>", i)))
		ri := must(predicate.Parse(fmt.Sprintf(`"r%04d"@[]`, i)))
		ds = append(ds, must(triple.New(si, ri, oi)))
	}
	ts = append(ts, ds...)
	write := func(k string, w []*triple.Triple) {
		var err, perr error
		if k == "add" {
			err, perr = mh.AddTriples(ctx, w), pg.AddTriples(ctx, w)
		} else {
			err, perr = mh.RemoveTriples(ctx, w), pg.RemoveTriples(ctx, w)
		}
		cs.Ops = append(cs.Ops, SeqOp{H: 0, K: k, G: 0, Triples: tstrings(w), Memo: &Ans{Elems: []string{}, Err: err != nil},
			Plain: &Ans{Elems: []string{}, Err: perr != nil}, Fwd: c.takeLog()})
	}
	read := func(q *Query) {
		lo := q.Lo
		d := q.descLo(&lo)
		lostr := lo.String()
		ma := q.run(ctx, mh)
		fwd := c.takeLog()
		pa := q.run(ctx, pg)
		cs.Ops = append(cs.Ops, SeqOp{H: 0, K: "read", G: 0, Q: &d, LoStr: lostr, Memo: &ma, Plain: &pa, Fwd: fwd, LoUse: "fresh"})
	}
	write("add", ts)
	streaming := []string{"Objects", "Subjects", "PredicatesForSubject", "PredicatesForObject", "PredicatesForSubjectAndObject",
		"TriplesForSubject", "TriplesForPredicate", "TriplesForObject", "TriplesForSubjectAndPredicate",
		"TriplesForPredicateAndObject", "Triples"}
	for _, op := range streaming {
		q := &Query{Op: op, S: s0, P: p0, O: o0, T: ts[0]}
		read(q)
		read(q)
	}
	write("remove", ts[:3])
	for _, op := range streaming[:3] {
		read(&Query{Op: op, S: s0, P: p0, O: o0, T: ts[0]})
	}
	// a long read-only run: `many` DISTINCT questions of one kind (one per result map of the memoizer), each with its own
	// answer, then the early ones again
	absent := must(triple.New(s0, p0, triple.NewNodeObject(must(node.Parse("/no<where>")))))
	for _, op := range []string{"Exist", "TriplesForSubject", "Subjects", "PredicatesForSubject", "Objects"} {
		qs := []*Query{}
		for i, d := range ds {
			q := &Query{Op: op, S: d.Subject(), P: d.Predicate(), O: d.Object(), T: d}
			if op == "Exist" && i%2 == 1 {
				q.T = must(triple.New(d.Subject(), absent.Predicate(), d.Object())) // not stored: false
				if i%4 == 1 {
					q.T = must(triple.New(d.Subject(), d.Predicate(), absent.Object()))
				}
			}
			qs = append(qs, q)
			read(q)
		}
		for _, q := range qs[:4] {
			read(q)
		}
		read(qs[many-1])
	}
	// failures of the wrapped lookup deep inside a long stream: the wrapper must report them
	write("remove", ds[:1])
	all := &Query{Op: "Triples", S: s0, P: p0, O: o0, T: ts[0]}
	subj := &Query{Op: "TriplesForSubject", S: s0, P: p0, O: o0, T: ts[0]}
	for _, k := range []int{300, 1100, 10} {
		c.readFaults[c.nReads] = k
		read(all)
		c.readFaults[c.nReads] = k
		read(subj)
	}
	read(all)
	read(all)
	read(subj)
	return cs
}

// ------------------------------------------------------------------------------------------------ tiny vocabulary

func tinyTriple(id int) *triple.Triple {
	return must(triple.Parse(fmt.Sprintf("/t<%02d>\t\"p\"@[]\t/o<%02d>", id, id), literal.DefaultBuilder()))
}

func tinyTriples(ids []int) []*triple.Triple {
	ts := []*triple.Triple{}
	for _, i := range ids {
		ts = append(ts, tinyTriple(i))
	}
	return ts
}

var tinyBack = map[string]int{}

func init() {
	for i := 0; i < 100; i++ {
		tinyBack[tinyTriple(i).String()] = i
	}
}

// TOp is one request over numbered triples.
type TOp struct {
	H   int    `json:"h"`
	K   string `json:"k"` // add | remove | list | exist | open
	Ids []int  `json:"ids,omitempty"`
	Max int    `json:"max"`
	Off int    `json:"off"`
	ID  int    `json:"id"`
	// Cancel: the caller takes this many elements, cancels its context and stops receiving (list only)
	Cancel *int `json:"cancel,omitempty"`
}

// TAns is an answer over numbered triples.
type TAns struct {
	List []int `json:"list"`
	Bool bool  `json:"bool"`
	Err  bool  `json:"err"`
}

func tinyAns(a Ans) TAns {
	r := TAns{List: []int{}, Bool: a.Bool, Err: a.Err}
	for _, e := range a.Elems {
		r.List = append(r.List, tinyBack[e])
	}
	return r
}

func (o *TOp) query() *Query {
	switch o.K {
	case "list":
		return &Query{Op: "Triples", Lo: storage.LookupOptions{MaxElements: o.Max, Offset: o.Off}}
	case "exist":
		return &Query{Op: "Exist", T: tinyTriple(o.ID)}
	}
	return nil
}

func tinyExec(ctx context.Context, g storage.Graph, o *TOp) TAns {
	switch o.K {
	case "add":
		return TAns{List: []int{}, Err: g.AddTriples(ctx, tinyTriples(o.Ids)) != nil}
	case "remove":
		return TAns{List: []int{}, Err: g.RemoveTriples(ctx, tinyTriples(o.Ids)) != nil}
	}
	if o.Cancel != nil && o.K == "list" {
		q := o.query()
		lo := q.Lo
		return tinyAns(q.runCancel(g, &lo, *o.Cancel))
	}
	return tinyAns(o.query().run(ctx, g))
}

// TinyHist is a sequential history: handle h is the h-th "open"; all handles are of the same graph.
type TinyHist struct {
	Name string `json:"name"`
	Init []int  `json:"init"`
	Ops  []TOp  `json:"ops"`
	// injected failures of the wrapped store: the n-th forwarded read fails after delivering `after` elements
	ReadFaults map[string]int `json:"read_faults,omitempty"`
}

type TinyResult struct {
	Kind  string   `json:"kind"`
	Hist  TinyHist `json:"hist"`
	Memo  []TAns   `json:"memo"`
	Plain []TAns   `json:"plain"`
	Fwd   []int    `json:"fwd"` // number of calls that reached the wrapped store, per operation
	// LeakAt: index of the operation after which a forwarded lookup was still blocked (-1 none); the history stops there
	// and WriteBlocked says whether an AddTriples through the wrapper then failed to return within two seconds.
	LeakAt       int  `json:"leak_at"`
	WriteBlocked bool `json:"write_blocked"`
}

func runTiny(h TinyHist) TinyResult {
	ctx := withTid(-1)
	c := newCtl(false, 0)
	for k, v := range h.ReadFaults {
		var n int
		fmt.Sscan(k, &n)
		c.readFaults[n] = v
	}
	inner := &gStore{in: memory.NewStore(), c: c}
	memo := memoization.New(inner)
	plain := memory.NewStore()
	raw := must(inner.in.NewGraph(ctx, "?g"))
	pg := must(plain.NewGraph(ctx, "?g"))
	if len(h.Init) > 0 {
		must(0, raw.AddTriples(ctx, tinyTriples(h.Init)))
		must(0, pg.AddTriples(ctx, tinyTriples(h.Init)))
	}
	res := TinyResult{Kind: "tiny", Hist: h, LeakAt: -1}
	var handles []storage.Graph
	for i := range h.Ops {
		o := &h.Ops[i]
		if o.K == "open" {
			handles = append(handles, must(memo.Graph(ctx, "?g")))
			res.Memo = append(res.Memo, TAns{List: []int{}})
			res.Plain = append(res.Plain, TAns{List: []int{}})
			res.Fwd = append(res.Fwd, 0)
			continue
		}
		res.Memo = append(res.Memo, tinyExec(ctx, handles[o.H], o))
		leak := !c.settled(500 * time.Millisecond)
		res.Fwd = append(res.Fwd, len(c.takeLog()))
		po := *o
		po.Cancel = nil
		res.Plain = append(res.Plain, tinyExec(ctx, pg, &po))
		if leak {
			res.LeakAt = i
			done := make(chan struct{})
			go func() {
				handles[o.H].AddTriples(ctx, tinyTriples([]int{99}))
				close(done)
			}()
			select {
			case <-done:
			case <-time.After(2 * time.Second):
				res.WriteBlocked = true
			}
			break
		}
	}
	return res
}

// ------------------------------------------------------------------------------------------------ interleavings

// Scenario: threads over handles of one graph.
type Scenario struct {
	Name    string   `json:"name"`
	Init    []int    `json:"init"`
	Handles int      `json:"handles"`
	Threads []Thread `json:"threads"`
}

type Thread struct {
	H   int   `json:"h"`
	Ops []TOp `json:"ops"`
}

// OpRec is what one completed request observed.
type OpRec struct {
	A      TAns   `json:"a"`
	Ref    TAns   `json:"ref"`     // the wrapped store's answer at the moment of completion (reads)
	StartV int    `json:"start_v"` // number of writes applied to the wrapped store when the request started
	EndV   int    `json:"end_v"`   // ... and when it completed
	Start  int    `json:"start"`   // schedule position at which the request started
	End    int    `json:"end"`     // schedule position of its last step
	Refs   []TAns `json:"refs"`    // the wrapped store's answer for the request at every version 0..EndV (reads)
}

type SchedResult struct {
	Kind     string    `json:"kind"`
	Scn      string    `json:"scn"`
	Sched    []int     `json:"sched"`
	Complete bool      `json:"complete"`
	Invalid  bool      `json:"invalid"`
	Hang     bool      `json:"hang"`
	FreeRun  bool      `json:"free_run"` // after a hang the threads were released and ran to completion on their own
	Status   []string  `json:"status"`   // where every thread was parked when the run stopped
	Threads  [][]OpRec `json:"threads"`
	Final    []int     `json:"final"`
	Inner    []InnerEv `json:"-"`
	Points   []string  `json:"points"` // where the stepped thread parked after each step
	enabled  [][]int
}

func listing(g storage.Graph) []string {
	a := (&Query{Op: "Triples"}).run(withTid(-1), g)
	return a.Elems
}

func refAt(snap []string, o *TOp) TAns {
	ctx := withTid(-1)
	p := getStore()
	defer putStore(p)
	g := p.gs["?g"]
	ts := []*triple.Triple{}
	for _, s := range snap {
		ts = append(ts, must(triple.Parse(s, literal.DefaultBuilder())))
	}
	if len(ts) > 0 {
		must(0, g.AddTriples(ctx, ts))
	}
	return tinyAns(o.query().run(ctx, g))
}

// runSched executes the scenario under the given schedule prefix; when extend is set it continues with the lowest
// enabled thread until every thread has finished (recording the enabled sets, for the depth-first enumeration).
func runSched(scn *Scenario, sched []int, extend bool) *SchedResult {
	n := len(scn.Threads)
	c := newCtl(true, n)
	pst := getStore()
	inner := &gStore{in: pst.st, c: c}
	memo := memoization.New(inner)
	ctx0 := withTid(-1)
	raw := pst.gs["?g"]
	if len(scn.Init) > 0 {
		must(0, raw.AddTriples(ctx0, tinyTriples(scn.Init)))
	}
	c.snaps = [][]string{listing(raw)}
	c.snapFn = func() []string { return listing(raw) }
	handles := []storage.Graph{}
	for i := 0; i < scn.Handles; i++ {
		handles = append(handles, must(memo.Graph(ctx0, "?g")))
	}
	res := &SchedResult{Kind: "sched", Scn: scn.Name, Threads: make([][]OpRec, n)}
	pos := 0 // schedule position, written by the controller only while every thread is parked
	var twg sync.WaitGroup
	var tmu sync.Mutex
	for t := 0; t < n; t++ {
		twg.Add(1)
		go func(t int) {
			defer twg.Done()
			ctx := withTid(t)
			th := scn.Threads[t]
			for i := range th.Ops {
				c.park(ctx, "op-start")
				o := &th.Ops[i]
				c.mu.Lock()
				sv := c.version
				c.mu.Unlock()
				start := pos
				a := tinyExec(ctx, handles[th.H], o)
				rec := OpRec{A: a, StartV: sv, Start: start, End: pos, Ref: TAns{List: []int{}}, Refs: []TAns{}}
				c.mu.Lock()
				rec.EndV = c.version
				snaps := c.snaps
				c.mu.Unlock()
				if q := o.query(); q != nil {
					rec.Ref = tinyAns(q.run(ctx0, raw))
					if !sameT(rec.Ref, a) {
						for v := 0; v <= rec.EndV; v++ {
							rec.Refs = append(rec.Refs, refAt(snaps[v], o))
						}
					}
				}
				tmu.Lock()
				res.Threads[t] = append(res.Threads[t], rec)
				tmu.Unlock()
			}
			c.park(ctx, "finished")
		}(t)
	}
	status := make([]string, n)
	wait := func() (parkEv, bool) {
		select {
		case ev := <-c.parkCh:
			return ev, true
		case <-time.After(4 * time.Second):
			return parkEv{}, false
		}
	}
	for i := 0; i < n; i++ {
		ev, ok := wait()
		if !ok {
			res.Hang = true
			return res
		}
		status[ev.tid] = ev.point
	}
	enabledNow := func() []int {
		e := []int{}
		for t := 0; t < n; t++ {
			if status[t] != "finished" {
				e = append(e, t)
			}
		}
		return e
	}
	stepT := func(t int) bool {
		if t < 0 || t >= n || status[t] == "finished" {
			res.Invalid = true
			return false
		}
		res.enabled = append(res.enabled, enabledNow())
		res.Sched = append(res.Sched, t)
		c.resume[t] <- struct{}{}
		ev, ok := wait()
		if !ok || ev.tid != t {
			res.Hang = true
			return false
		}
		status[t] = ev.point
		res.Points = append(res.Points, ev.point)
		pos++
		return true
	}
	okAll := true
	for _, t := range sched {
		if !stepT(t) {
			okAll = false
			break
		}
	}
	for okAll && extend && len(enabledNow()) > 0 {
		if !stepT(enabledNow()[0]) {
			break
		}
	}
	res.Complete = len(enabledNow()) == 0 && !res.Hang && !res.Invalid
	res.Status = append([]string{}, status...)
	if res.Hang {
		// a thread neither reached a yield point nor finished its request: it waits for ANOTHER request.  Release
		// everything, let the threads run off, and report what they saw (each thread records the wrapped store's
		// answer at the moment its request completes).
		go func() {
			for range c.parkCh {
			}
		}()
		c.mu.Lock()
		c.gating = false
		c.mu.Unlock()
		for t := 0; t < n; t++ {
			close(c.resume[t])
		}
		fin := make(chan struct{})
		go func() { twg.Wait(); close(fin) }()
		select {
		case <-fin:
			res.FreeRun = true
		case <-time.After(4 * time.Second):
		}
		tmu.Lock()
		out := make([][]OpRec, n)
		for t := range res.Threads {
			out[t] = append([]OpRec{}, res.Threads[t]...)
		}
		tmu.Unlock()
		res.Threads = out
		res.Final = []int{}
		return res
	}
	for _, s := range listing(raw) {
		res.Final = append(res.Final, tinyBack[s])
	}
	if res.Final == nil {
		res.Final = []int{}
	}
	res.Inner = c.takeLog()
	// copy results, then let parked goroutines run off
	tmu.Lock()
	out := make([][]OpRec, n)
	for t := range res.Threads {
		out[t] = append([]OpRec{}, res.Threads[t]...)
	}
	tmu.Unlock()
	res.Threads = out
	c.mu.Lock()
	c.gating = false
	c.mu.Unlock()
	for t := 0; t < n; t++ {
		close(c.resume[t])
	}
	if res.Complete {
		putStore(pst) // every thread has finished: nothing can touch the store any more
	}
	return res
}

func sameT(a, b TAns) bool {
	if a.Bool != b.Bool || a.Err != b.Err || len(a.List) != len(b.List) {
		return false
	}
	for i := range a.List {
		if a.List[i] != b.List[i] {
			return false
		}
	}
	return true
}

// explore enumerates every complete schedule depth first (one real execution per complete schedule).
func explore(scn *Scenario, prefix []int, emit func(*SchedResult), budget *int) {
	if *budget <= 0 {
		return
	}
	r := runSched(scn, prefix, true)
	*budget--
	emit(r)
	if r.Hang {
		*budget = 0 // one blocked schedule is enough: every further one would cost the time-out again
	}
	if !r.Complete {
		return
	}
	full := r.Sched
	for i := len(full) - 1; i >= len(prefix); i-- {
		for _, t := range r.enabled[i] {
			if t > full[i] {
				np := append(append([]int{}, full[:i]...), t)
				explore(scn, np, emit, budget)
			}
		}
	}
}

// ------------------------------------------------------------------------------------------------ main

func main() {
	mode := flag.String("mode", "seq", "seq | tiny | explore | sched")
	n := flag.Int("n", 100, "number of histories (seq)")
	seed := flag.Int64("seed", 1, "PRNG seed")
	faults := flag.Bool("faults", false, "seq: inject failures of the wrapped store")
	big := flag.Bool("big", false, "seq: append one sized history (every streaming lookup has 1025..1500 results, asked twice)")
	cancels := flag.Bool("cancels", false, "seq: some lookups are cancelled by the caller after k elements")
	budget := flag.Int("budget", 200000, "explore: maximum number of schedules per scenario")
	prof := flag.String("cpuprofile", "", "write a CPU profile")
	flag.Parse()
	if *prof != "" {
		f := must(os.Create(*prof))
		pprof.StartCPUProfile(f)
		defer pprof.StopCPUProfile()
	}
	w := bufio.NewWriterSize(os.Stdout, 1<<20)
	defer w.Flush()
	enc := json.NewEncoder(w)
	enc.SetEscapeHTML(false)
	switch *mode {
	case "seq":
		master := rand.New(rand.NewSource(*seed))
		for i := 0; i < *n; i++ {
			enc.Encode(genSeq(i, master.Int63(), *faults, *cancels))
		}
		if *big {
			enc.Encode(genBig(*n, master.Int63()))
		}
	case "tiny":
		sc := bufio.NewScanner(os.Stdin)
		sc.Buffer(make([]byte, 1<<20), 1<<26)
		for sc.Scan() {
			if len(sc.Bytes()) == 0 {
				continue
			}
			var h TinyHist
			must(0, json.Unmarshal(sc.Bytes(), &h))
			enc.Encode(runTiny(h))
		}
	case "explore":
		sc := bufio.NewScanner(os.Stdin)
		sc.Buffer(make([]byte, 1<<20), 1<<26)
		for sc.Scan() {
			if len(sc.Bytes()) == 0 {
				continue
			}
			var scn Scenario
			must(0, json.Unmarshal(sc.Bytes(), &scn))
			b := *budget
			cnt := 0
			explore(&scn, nil, func(r *SchedResult) { cnt++; enc.Encode(r) }, &b)
			enc.Encode(map[string]interface{}{"kind": "explored", "scn": scn.Name, "schedules": cnt, "exhausted": b > 0})
		}
	case "sched":
		sc := bufio.NewScanner(os.Stdin)
		sc.Buffer(make([]byte, 1<<20), 1<<26)
		for sc.Scan() {
			if len(sc.Bytes()) == 0 {
				continue
			}
			var in struct {
				Scn   Scenario `json:"scn"`
				Sched []int    `json:"sched"`
			}
			must(0, json.Unmarshal(sc.Bytes(), &in))
			enc.Encode(runSched(&in.Scn, in.Sched, false))
		}
	default:
		fmt.Fprintln(os.Stderr, "unknown mode")
		os.Exit(2)
	}
}
