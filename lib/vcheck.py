"""Shared machinery for /verif/bin/check: building, regenerating, obligations, Coq evaluation, evidence, verdicts.

Every check: (1) regenerates the generated Coq files from /repo and rebuilds, (2) re-checks the property's
theorems (Props/Cxx.v is compiled on every run and its Print Assumptions output is inspected), (3) runs the
correspondence between the Gallina model (evaluated inside Coq with vm_compute) and the implementation built from
/repo's working tree, (4) prints KNOWN-FINDING lines, (5) decides, (6) writes evidence/<id>.json.
"""
import fcntl, hashlib, json, os, re, subprocess, sys, time

VERIF = os.path.dirname(os.path.dirname(os.path.abspath(__file__)))
REPO = os.environ.get("VERIF_REPO", "/repo")
COQ = os.path.join(VERIF, "coq")
WORK = os.path.join(VERIF, "work")
BIN = os.path.join(WORK, "bin")

# Coq sub-projects in build order: (directory, logical name)
PROJECTS = [("Lib", "BWLib"), ("Grammar", "BWGrammar"), ("Values", "BWValues"), ("Store", "BWStore"),
            ("Lexer", "BWLexer"), ("Table", "BWTable"), ("Planner", "BWPlanner"), ("Memo", "BWMemo"),
            ("Exec", "BWExec"), ("Conc", "BWConc"), ("Engine", "BWEngine")]

ALLOWED_AXIOMS = {
    "functional_extensionality_dep", "proof_irrelevance", "JMeq_eq", "Eqdep.Eq_rect_eq.eq_rect_eq",
    "eq_rect_eq", "classic",
}

FORBIDDEN = re.compile(r"\b(Admitted|admit|Axiom|Axioms|Parameter|Parameters|Conjecture|Conjectures|"
                       r"Unset\s+Guard|bypass_check|Admit\s+Obligations)\b|type-in-type|impredicative-set")


def goenv():
    e = dict(os.environ)
    e["GOFLAGS"] = "-mod=mod"
    e["GOPROXY"] = "off"
    e.pop("GOSUMDB", None)
    e.pop("GOTOOLCHAIN", None)
    e.setdefault("GOCACHE", os.path.join(WORK, "gocache"))
    return e


# every time limit of the checks is a safety net against a stuck tool, never a verdict: on a loaded machine (the checks
# of twenty properties, mutation runs and agents in parallel pushed the load average over 100) the limits as written
# were reached by healthy runs, so all of them are scaled (VERIF_TIMEOUT_SCALE, default 4)
TSCALE = float(os.environ.get("VERIF_TIMEOUT_SCALE", "4") or "4")


def sh(cmd, cwd=None, timeout=1200, env=None, inp=None):
    timeout = timeout * TSCALE
    if isinstance(cmd, list) and len(cmd) > 2 and cmd[0] == "timeout" and str(cmd[1]).isdigit():
        cmd = [cmd[0], str(int(int(cmd[1]) * TSCALE))] + list(cmd[2:])
    elif isinstance(cmd, str):
        m = re.match(r"timeout (\d+) (.*)$", cmd, flags=re.S)
        if m:
            cmd = "timeout %d %s" % (int(int(m.group(1)) * TSCALE), m.group(2))
    p = subprocess.run(cmd, cwd=cwd, env=env, input=inp, stdout=subprocess.PIPE, stderr=subprocess.STDOUT,
                       timeout=timeout, shell=isinstance(cmd, str), text=True, errors="replace")
    return p.returncode, p.stdout


class Lock:
    def __init__(self, name):
        os.makedirs(WORK, exist_ok=True)
        self.path = os.path.join(WORK, name + ".lock")

    def __enter__(self):
        self.f = open(self.path, "w")
        fcntl.flock(self.f, fcntl.LOCK_EX)
        return self

    def __exit__(self, *a):
        fcntl.flock(self.f, fcntl.LOCK_UN)
        self.f.close()


def existing_projects():
    return [(d, n) for d, n in PROJECTS if os.path.exists(os.path.join(COQ, d, "_CoqProject"))]


def qflags():
    out = []
    for d, n in existing_projects():
        out += ["-Q", os.path.join(COQ, d), n]
    return out


class Broken(Exception):
    """An obligation / translator / build step no longer checks."""
    def __init__(self, what, detail=""):
        super().__init__(what)
        self.what, self.detail = what, detail


def go_build(cmds=None):
    """Build every harness command against /repo's current working tree (tag verif)."""
    with Lock("gobuild"):
        os.makedirs(BIN, exist_ok=True)
        h = os.path.join(VERIF, "harness")
        sumsrc = os.path.join(REPO, "go.sum")
        if os.path.exists(sumsrc):
            with open(sumsrc) as f, open(os.path.join(h, "go.sum"), "w") as g:
                g.write(f.read())
        args = ["go", "build", "-tags", "verif"]
        if REPO != "/repo":
            # scratch copy of the repository (mutation testing): same module file with another replace target
            alt = os.path.join(WORK, "go.alt.mod")
            txt = open(os.path.join(h, "go.mod")).read().replace("=> /repo", "=> " + REPO)
            open(alt, "w").write(txt)
            open(os.path.join(WORK, "go.alt.sum"), "w").write(open(os.path.join(h, "go.sum")).read())
            args += ["-modfile=" + alt]
        targets = ["./cmd/..."] if cmds is None else ["./cmd/" + c for c in cmds]
        rc, out = sh(args + ["-o", BIN + "/"] + targets, cwd=h, env=goenv(), timeout=900)
        if rc != 0:
            raise Broken("go build of the harness against the repository failed", out[-4000:])


def regen(only=None):
    """Run the translators (write-if-changed)."""
    with Lock("regen"):
        gens = [("gengrammar", os.path.join(COQ, "Grammar", "Gen", "GrammarGen.v")),
                ("genlex", os.path.join(COQ, "Lexer", "Gen", "LexTablesGen.v")),
                ("genlocks", os.path.join(COQ, "Conc", "Gen", "LockFactsGen.v"))]
        for tool, out in gens:
            if only is not None and tool not in only:
                continue
            exe = os.path.join(BIN, tool)
            if not os.path.exists(exe) or not os.path.isdir(os.path.dirname(os.path.dirname(out))):
                continue
            os.makedirs(os.path.dirname(out), exist_ok=True)
            rc, o = sh([exe, "-o", out], cwd=REPO, env=goenv(), timeout=300)
            if rc != 0:
                raise Broken("translator %s aborted" % tool, o[-4000:])


def coq_make(only=None):
    """make every Coq sub-project in order (no-op when nothing changed)."""
    for d, n in existing_projects():
        if only is not None and d not in only:
            continue
        with Lock("coqmake-" + d):      # one lock per project: other families' builds do not serialise this one
            pd = os.path.join(COQ, d)
            if not os.path.exists(os.path.join(pd, "Makefile")) or \
               os.path.getmtime(os.path.join(pd, "Makefile")) < os.path.getmtime(os.path.join(pd, "_CoqProject")):
                rc, o = sh("coq_makefile -f _CoqProject -o Makefile", cwd=pd)
                if rc != 0:
                    raise Broken("coq_makefile failed in " + d, o)
            rc, o = sh("timeout 1500 make -j16", cwd=pd, timeout=1600)
            if rc != 0:
                raise Broken("Coq build failed in coq/%s (a proof or generated obligation no longer checks)" % d,
                             o[-6000:])


def forbidden_scan(only=None):
    bad = []
    roots = [COQ] if only is None else [os.path.join(COQ, d) for d in only]
    for root, _, files in (x for r in roots for x in os.walk(r)):
        for f in files:
            if f.endswith(".v"):
                p = os.path.join(root, f)
                txt = open(p, errors="replace").read()
                txt = re.sub(r"\(\*.*?\*\)", "", txt, flags=re.S)
                for m in FORBIDDEN.finditer(txt):
                    bad.append("%s: %s" % (os.path.relpath(p, VERIF), m.group(0)))
    return bad


def coq_props(project, propfile):
    """Compile coq/<project>/Props/<propfile>.v now and collect (theorem, assumptions) pairs."""
    pd = os.path.join(COQ, project)
    src = os.path.join(pd, "Props", propfile + ".v")
    txt = open(src).read()
    names = re.findall(r"^\s*(?:Theorem|Lemma|Example|Corollary)\s+([A-Za-z0-9_']+)", txt, flags=re.M)
    with Lock("coqmake-" + project):
        rc, out = sh(["timeout", "900", "coqc"] + qflags() + [src], cwd=pd, timeout=1000)
    if rc != 0:
        raise Broken("Props/%s.v does not compile: a property theorem no longer checks" % propfile, out[-6000:])
    # parse Print Assumptions blocks: they appear in order of the Print Assumptions commands
    pa = re.findall(r"Print Assumptions\s+([A-Za-z0-9_']+)", txt)
    blocks = re.split(r"(?=Closed under the global context|Axioms:)", out)
    blocks = [b for b in blocks if b.startswith("Closed under") or b.startswith("Axioms:")]
    res = []
    for i, nm in enumerate(pa):
        b = blocks[i] if i < len(blocks) else "MISSING"
        if b.startswith("Closed under"):
            res.append({"theorem": nm, "assumptions": []})
        else:
            ax = re.findall(r"^([A-Za-z0-9_.']+)\s*:", b, flags=re.M)
            res.append({"theorem": nm, "assumptions": ax})
    missing = [n for n in names if n.startswith("C") and n not in pa and not n.endswith("_example")]
    return {"theorems": names, "assumptions": res, "unprinted": missing, "log": out, "project": project, "propfile": propfile}


def coqchk(project, propfile):
    """Independent re-check of the compiled property file and everything it depends on (thorough tier)."""
    logical = dict(existing_projects())[project] + ".Props." + propfile
    with Lock("coqchk"):
        rc, out = sh(["timeout", "3000", "coqchk", "-silent", "-o"] + qflags() + [logical], cwd=COQ, timeout=3100)
    return rc, out


def coq_eval(workdir, name, vtext, timeout=1200):
    """Write a .v file into the work directory, compile it, return coqc's output (printed results)."""
    os.makedirs(workdir, exist_ok=True)
    p = os.path.join(workdir, name + ".v")
    with open(p, "w") as f:
        f.write(vtext)
    rc, out = sh(["timeout", str(timeout), "coqc"] + qflags() + ["-Q", workdir, "Cases", p], cwd=workdir,
                 timeout=timeout + 30)
    for ext in (".vo", ".vok", ".vos", ".glob"):
        try:
            os.remove(os.path.join(workdir, name + ext))
        except OSError:
            pass
    try:
        os.remove(os.path.join(workdir, "." + name + ".aux"))
    except OSError:
        pass
    if rc != 0:
        raise Broken("evaluating the model inside Coq failed (%s)" % name, out[-4000:])
    return out


def norm(s):
    return re.sub(r"\s+", " ", s).strip()


def parse_nat_list(out, marker):
    """Find 'marker = [a; b; c]' (possibly wrapped) in coqc output and return the numbers."""
    m = re.search(re.escape(marker) + r"\s*=\s*(\[.*?\]|nil)", norm(out))
    if not m:
        raise Broken("could not find %s in Coq output" % marker, out[-2000:])
    body = m.group(1)
    return [int(x) for x in re.findall(r"\d+", body)]


# ---------------------------------------------------------------- known findings
def known_findings(prop):
    path = os.path.join(VERIF, "findings", prop + ".txt")
    out = []
    if not os.path.exists(path):
        return out
    for line in open(path):
        line = line.strip()
        if not line.startswith("finding:"):
            continue
        kv = dict(re.findall(r"(\w+)=(\{.*?\}(?=\s+\w+=|\s*$)|\S+)", line[len("finding:"):]))
        if kv.get("property") == prop:
            kv["_line"] = line
            out.append(kv)
    return out


# ---------------------------------------------------------------- context / evidence / verdict
class Ctx:
    def __init__(self, prop, tier, seed, replay=None):
        self.prop, self.tier, self.seed, self.replay = prop, tier, seed, replay
        self.t0 = time.time()
        self.work = os.path.join(WORK, prop)
        os.makedirs(self.work, exist_ok=True)
        self.cov = {"obligations": 0, "discharged": 0, "evaluations": 0, "distinct_nontrivial": 0,
                    "samples": [], "trusted_base": [], "checker_cmd": "", "rule": ""}
        self.assumptions = []
        self.violations = []   # (replay_obj, nofound)
        self.findings_printed = []
        self.notes = []

    def quick(self):
        return self.tier != "thorough"

    def add_obligations(self, info, extra_closed=0):
        """info from coq_props"""
        n = len(info["assumptions"])
        ok = 0
        for a in info["assumptions"]:
            bad = [x for x in a["assumptions"] if x.split(".")[-1] not in ALLOWED_AXIOMS and x not in ALLOWED_AXIOMS]
            if bad:
                self.violations.append(({"kind": "axiom", "theorem": a["theorem"], "axioms": bad}, True))
            else:
                ok += 1
        self.cov["obligations"] += n
        self.cov["discharged"] += ok
        if self.tier == "thorough" and info.get("project"):
            rc, out = coqchk(info["project"], info["propfile"])
            self.cov.setdefault("coqchk", []).append({"file": info["project"] + "/Props/" + info["propfile"], "exit": rc,
                                                      "tail": out[-1500:]})
            if rc != 0:
                self.violations.append(({"kind": "coqchk-failed", "file": info["propfile"], "detail": out[-3000:]}, True))
        self.cov.setdefault("theorems", []).extend(
            [{"name": a["theorem"], "axioms": a["assumptions"]} for a in info["assumptions"]])

    def broken(self, what, detail="", found_input=None):
        obj = {"kind": "broken", "what": what, "detail": detail[-3000:]}
        if found_input is not None:
            obj["failing_input"] = found_input
        self.violations.append((obj, found_input is None))

    def violation(self, obj):
        self.violations.append((obj, False))

    def known(self, what):
        line = "KNOWN-FINDING: property=%s %s" % (self.prop, what)
        print(line)
        self.findings_printed.append(what)

    def finish(self, level_text_trusted):
        cov = self.cov
        cov["trusted_base"] = level_text_trusted
        cov["findings_printed"] = self.findings_printed
        cov["notes"] = self.notes
        # schema hygiene: `exhaustive` must be a boolean; a description of the exhausted scope goes to exhaustive_scope
        if "exhaustive" in cov and not isinstance(cov["exhaustive"], bool):
            cov["exhaustive_scope"] = cov["exhaustive"]
            cov["exhaustive"] = True
        for k in ("evaluations", "distinct_nontrivial", "obligations", "discharged"):
            if k in cov and not isinstance(cov[k], int):
                cov[k] = int(cov[k])
        if not isinstance(cov.get("samples"), list):
            cov["samples"] = [cov.get("samples")]
        if cov.get("obligations", 0) == 0:
            # nothing was compiled (the run broke before the obligations): fall back to the generic keys only
            cov.pop("obligations", None)
            cov.pop("discharged", None)
        wall = time.time() - self.t0
        ev = {"property_id": self.prop, "tier": "thorough" if self.tier == "thorough" else "quick",
              "seed": int(self.seed), "level": "proof", "coverage": cov, "assumptions": self.assumptions,
              "wall_s": round(wall, 2), "violations": len(self.violations)}
        os.makedirs(os.path.join(VERIF, "evidence"), exist_ok=True)
        with open(os.path.join(VERIF, "evidence", self.prop + ".json"), "w") as f:
            json.dump(ev, f, indent=1, sort_keys=True, default=str)
            f.write("\n")
        if not self.violations:
            print("OK property=%s tier=%s obligations=%d/%d evaluations=%d wall=%.1fs" % (
                self.prop, self.tier, cov.get("discharged", 0), cov.get("obligations", 0), cov.get("evaluations", 0), wall))
            return 0
        for i, (obj, nofound) in enumerate(self.violations):
            rp = os.path.join(self.work, "replay-%d.json" % i)
            with open(rp, "w") as f:
                json.dump({"property": self.prop, "seed": self.seed, "tier": self.tier, "violation": obj}, f,
                          indent=1, default=str)
            print("VIOLATION property=%s replay=%s%s" % (self.prop, rp, " no-failing-input-found" if nofound else ""))
        return 1


def case_hash(obj):
    return hashlib.sha1(json.dumps(obj, sort_keys=True, default=str).encode()).hexdigest()


def coq_bytes(bs):
    """Render bytes as a Coq list byte literal."""
    return "[" + ";".join("x%02x" % b for b in bs) + "]"


def coq_list(items):
    return "[" + "; ".join(items) + "]"


STD_TRUSTED = [
    "Coq 8.16.1 kernel incl. vm_compute (no native_compute)",
    "hand-written Gallina model tied to /repo only by the differential correspondence run",
    "Go harness (generators, canonicalisation, diff) and the translators under /verif/harness",
    "Go standard library behaviour modelled as described in DESIGN.md section 2.3",
]
